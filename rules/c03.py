"""C03 -- everything crossing the boundary is FFI-safe by the compiler's own rules.

Deciding step: rustc's `improper_ctypes` lint on user-written `extern "C"` declaration probes of every opaque
object/group type of the corpus and of every shipped wrapper type (the lint recurses object -> &vtable -> slot
-> argument/return types), plus repr/ABI facts of every generated and runtime ADT from the type-checked program.
"""
import re
from lib import corpus, facts, model, report

GEN_MACROS = ("cglue_trait", "cglue_trait_ext", "cglue_trait_group", "cglue_builtin_ext_traits", "cglue_forward",
              "cglue_forward_ext", "cglue_builtin_ext_forward", "cglue_impl_group")
# runtime wrapper types of cglue that cross the boundary (module, name); checked to exist and to have a C repr
RUNTIME = [
    ("boxed", "CBox"), ("boxed", "CSliceBox"), ("arc", "CArc"), ("arc", "CArcSome"), ("vec", "CVec"),
    ("slice", "CSliceRef"), ("slice", "CSliceMut"), ("option", "COption"), ("result", "CResult"),
    ("tuple", "CTup1"), ("tuple", "CTup2"), ("tuple", "CTup3"), ("tuple", "CTup4"),
    ("callback", "Callback"), ("callback", "OpaqueCallback"), ("iter", "CIterator"),
    ("repr_cstring", "ReprCString"), ("repr_cstring", "ReprCStr"), ("forward", "Fwd"),
    ("trait_group", "CGlueTraitObj"), ("trait_group", "CGlueObjContainer"), ("trait_group", "c_void"),
    ("task", "CRefWaker"), ("task", "CRawWaker"), ("task", "OpaqueRawWaker"), ("task", "OpaqueRawWakerVtbl"),
]


def has_c_repr(adt):
    r = adt["repr"]
    return "C" in r or "transparent" in r or any(x.startswith("Fixed") or x.startswith("Pointer") for x in r)


def generated(adt):
    return adt["exp"] and any('"%s"' % m in adt["macro"] for m in GEN_MACROS)


def check_units(ck, f, unit, label):
    m = model.Model(f, unit)
    n_gen = 0
    for a in f.adts(unit):
        if generated(a):
            n_gen += 1
            ck.ob("R-repr-generated", "%s/%s" % (label, a["path"]), has_c_repr(a),
                  "generated ADT %s (%s) has no C representation: repr=%s" % (a["path"], a["span"], a["repr"]),
                  sample={"adt": a["path"], "repr": a["repr"]})
    n_slots = 0
    for g in m.gen_traits:
        for name, fld in model.adt_fields(g.vtbl):
            if model.is_phantom(fld):
                continue
            sh = fld["shape"]
            n_slots += 1
            ok = sh.get("k") == "fnptr" and sh.get("abi", "").startswith("C")
            ck.ob("R-slot-abi", "%s/%s.%s" % (label, g.vtbl_path, name), ok,
                  "vtable slot %s.%s is not an extern \"C\" function pointer: %s" % (g.vtbl_path, name, fld["ty"]),
                  sample={"slot": g.vtbl["name"] + "." + name, "ty": fld["ty"]})
            if ok:
                # no layout-unspecified kinds directly in the signature (by value)
                for i, a in enumerate(sh["inputs"] + [sh["output"]]):
                    bad = None
                    k = a.get("k")
                    if k == "tuple" and a.get("n", 0) > 0:
                        bad = "tuple"
                    elif k in ("str", "slice", "dyn"):
                        bad = k
                    elif k in ("ref", "ptr") and a.get("to_kind") in ("str", "slice", "dyn"):
                        bad = "fat pointer to " + a["to_kind"]
                    elif k == "fnptr" and not a.get("abi", "").startswith("C"):
                        bad = "Rust-ABI function pointer"
                    elif k == "enum" and a.get("path") in ("std::result::Result", "core::result::Result"):
                        bad = "Result"
                    elif k in ("struct", "enum", "union") and a.get("path", "").startswith(("std::", "core::", "alloc::")) \
                            and a.get("path") not in ("std::option::Option", "core::option::Option", "std::pin::Pin", "core::pin::Pin",
                                                      "std::mem::MaybeUninit", "core::mem::MaybeUninit", "std::ptr::NonNull", "core::ptr::NonNull",
                                                      "std::marker::PhantomData", "core::marker::PhantomData", "std::task::Poll", "core::task::Poll") \
                            and not a.get("path", "").startswith(("std::num::", "core::num::")) \
                            and not ("C" in a.get("repr", []) or "transparent" in a.get("repr", [])):
                        bad = "std type without C repr: " + a["path"]
                    if "::ffi_controls::" in g.vtbl_path:
                        if bad:
                            ck.extra.setdefault("controls_flagged", []).append("R-slot-sig:" + g.vtbl["name"])
                        continue
                    ck.ob("R-slot-sig", "%s/%s.%s/%d" % (label, g.vtbl_path, name, i), bad is None,
                          "vtable slot %s.%s position %d has layout-unspecified type %s (%s)" % (g.vtbl_path, name, i, a.get("ty"), bad))
    return n_gen, n_slots, len(m.gen_traits)


def run(tier):
    ck = report.Check("C03", tier, level="proof")
    # ---- (1) lint oracle on declaration probes -----------------------------------------
    cf = corpus.corpus_facts(tier)
    exp = corpus.expect(tier)
    ck.unit("corpus-%s (%d single-method traits)" % (tier, exp["n_singles"]))
    src_lines = open(corpus.corpus_dir(tier) + "/src/lib.rs").read().split("\n")
    decl_line = {}
    for i, l in enumerate(src_lines):
        mm = re.match(r"\s*pub fn (ffi_\w+)\(", l)
        if mm:
            decl_line[i + 1] = mm.group(1)
    flagged = {}
    for d in cf.diagnostics:
        if d.get("code") in ("improper_ctypes", "improper_ctypes_definitions"):
            for sp in d["spans"]:
                fn = decl_line.get(sp["line"])
                if fn:
                    flagged.setdefault(fn, []).append(d["message"] + " -- " + "; ".join(d["children"][:2]))
    controls = ["ffi_control_tuple", "ffi_control_rustfn"]
    for c in controls:
        ck.require(c in flagged, "positive control %s was not flagged by rustc's improper_ctypes lint (lint not running)" % c)
    probes = exp["ffi"]
    ck.require(len([p for p in probes if p["fn"] in decl_line.values()]) == len(probes), "every expected FFI probe declaration is present in the corpus source")
    for p in probes:
        fn = p["fn"]
        ck.ob("L-decl-probe", "corpus/%s" % fn, fn not in flagged,
              "rustc improper_ctypes: probe %s (%s %s): %s" % (fn, p["item"], p["kind"], " | ".join(flagged.get(fn, []))),
              sample={"probe": fn, "verdict": "FFI-safe"})
    ck.floor("ffi declaration probes", len(probes), 400 if tier == "quick" else 2000)
    # ---- (3) repr / ABI facts ---------------------------------------------------------------
    n_gen, n_slots, n_tr = check_units(ck, cf, None, "corpus")
    ck.floor("generated ADTs in corpus", n_gen, 450)
    ck.require(len(ck.extra.get("controls_flagged", [])) == 2, "both FFI control traits flagged by the slot-signature rule")
    ct = facts.cfg_cglue(tests=True)
    ck.unit("cglue --tests")
    g2, s2, t2 = check_units(ck, ct, "cglue-test", "cglue-tests")
    ck.floor("generated vtables in cglue --tests", t2, 50)
    cl = facts.cfg_cglue(features="task,futures")
    ck.unit("cglue lib (task,futures)")
    check_units(ck, cl, "cglue-lib", "cglue")
    ex = facts.cfg_examples()
    ck.unit("examples (plugin-api, plugin-lib, user-bin)")
    g4, s4, t4 = check_units(ck, ex, None, "examples")
    ck.floor("generated vtables in examples", t4, 4)
    # runtime wrapper types
    adts = {a["path"]: a for a in cl.adts("cglue-lib")}
    for mod, name in RUNTIME:
        p = "cglue::%s::%s" % (mod, name)
        a = adts.get(p)
        if not ck.require(a is not None, "runtime type %s exists" % p):
            continue
        ck.ob("R-repr-runtime", "cglue/" + p, has_c_repr(a), "runtime wrapper %s (%s) has no C representation: repr=%s" % (p, a["span"], a["repr"]),
              sample={"adt": p, "repr": a["repr"]})
    # every public ADT of the boundary modules has a C repr (new types included without listing them)
    for a in cl.adts("cglue-lib"):
        parts = a["path"].split("::")
        if len(parts) == 3 and parts[1] in ("boxed", "arc", "slice", "vec", "option", "result", "callback", "iter", "tuple", "repr_cstring", "forward", "task") \
                and a["vis"].startswith("Public"):
            ck.ob("R-repr-public", "cglue/" + a["path"], has_c_repr(a), "public type %s in a boundary module has no C representation" % a["path"])
    rc = ck.finish(
        "rustc's improper_ctypes lint evaluated on user-written extern \"C\" declaration probes of every opaque object/group "
        "type in the corpus grammar and every shipped wrapper type (lint recursion reaches every vtable slot signature); "
        "repr(C)/transparent and extern \"C\" ABI facts for every generated and runtime ADT from the type-checked program; "
        "two deliberately FFI-unsafe control traits must be flagged on every run",
        rule_text="obligation = one probe declaration / one ADT repr / one vtable slot ABI / one slot signature position",
        trusted=["rustc nightly 1.97 improper_ctypes lint and type checker", "cgv-driver fact printing"],
        exhaustive=(tier == "thorough"))
    return rc
