"""C18 -- post-processed headers: claimed clauses only.

(R) reproducible: no order-exposing iteration of a hash collection (and no time/thread/random/read_dir source) reachable from
    cglue-bindgen's main flows into the output, except (a) iterations whose only sink is another unordered collection and
    (b) iterations over a constant table that are accepted only while exactly one entry passes the site's filter.
(A) argument partition: Command::args receives only values from the post-`--` vector, the config path comes only from the
    pre-`--` vector, and what is written to the `-o` path is the processed header.
NOT decided: that the output compiles as C99/C++11 and that foreign declarations survive unmodified -- these are properties of
the regex rewrite's input->output function and need the tool to run.
"""
from lib import corpus, facts, mir, report, callgraph, taint

from lib.callgraph import UNORDERED, ADAPTERS, sink_of_iteration, sink_bb, sorted_before_use, order_free_sink


def table_entries(fn, adt_suffix):
    """Aggregates of the constant table built in a promoted body: list of {field: origin}."""
    out = []
    for pb in fn.get("promoted", []):
        body = mir.Body(fn, pb)
        for bb in pb["blocks"]:
            for s in bb["s"]:
                if s["k"] == "assign" and s["r"]["k"] == "agg" and s["r"].get("adt", "").endswith(adt_suffix):
                    out.append(dict(zip(s["r"]["fields"], [body.origin_operand(o) for o in s["r"]["ops"]])))
    return out


def is_some(o):
    return o[0] == "agg" and o[2] == "Some"


# accepted single-survivor iterations: (function, iterated map value type) -> (table fn, ADT, predicate over one table entry)
SINGLE_SURVIVOR = {
    ("cglue_bindgen::codegen::c::parse_header", "ContextType"): ("cglue_bindgen::types::ContextType::<'a>::get_map", "::ContextType",
                                                                   lambda e: is_some(e["clone_impl"]) and is_some(e["drop_impl"]),
                                                                   "entries with both clone_impl and drop_impl"),
    ("cglue_bindgen::codegen::c::parse_header", "ContainerType"): ("cglue_bindgen::types::ContainerType::<'a>::get_map", "::ContainerType",
                                                                     lambda e: is_some(e["drop_impl"]), "entries with a drop_impl"),
}


def run(tier):
    ck = report.Check("C18", tier, level="other")
    bf = facts.cfg_bindgen()
    ck.unit("cglue-bindgen (bin)")
    fns = {f["path"]: f for f in bf.fns()}
    cg = callgraph.CallGraph(bf.fns())
    main = "cglue_bindgen::main"
    if not ck.require(main in fns, "cglue_bindgen::main"):
        return ck.finish("anchor missing")
    reach = cg.reachable([main])
    ck.floor("functions reachable from main", len(reach), 60)
    ck.require("cglue_bindgen::codegen::c::parse_header" in reach and "cglue_bindgen::codegen::cpp::parse_header" in reach, "both header processors reachable from main")

    # ---- (R) hash-order sites --------------------------------------------------------------------------
    n_sites = 0
    n_handed = 0
    for p in sorted(reach):
        f = fns[p]
        body = mir.Body(f)
        for bb, t in body.calls():
            c = t.get("callee")
            if not c:
                continue
            name = c.get("name")
            selfty = c.get("self", "") or ""
            res = c.get("res") or {}
            for a in callgraph.handed_over_iterables(c):
                n_handed += 1
                ck.ob("R-hash-order-into-output", "%s/%s(%s)" % (p, name, a[:60].replace(" ", "")), False,
                      "%s (%s:%s) hands %s to %s, which iterates it in hash order into %s: output order differs between processes"
                      % (p, f["span"].split(":")[0], t.get("line"), a[:100], c["path"], (selfty or "its receiver")[:80]),
                      detail={"fn": p, "line": t.get("line"), "iterates": a, "callee": c["path"], "path_from_main": cg.path_to(p)})
            recv = " ".join([c["path"], selfty, res.get("impl_self", "") or ""] + c.get("args", [])[:1])
            is_hash_recv = ("std::collections::HashMap<" in recv or "std::collections::HashSet<" in recv) and "hash_map::" not in selfty.split("<")[0] and "hash_set::" not in selfty.split("<")[0]
            if not is_hash_recv or name not in callgraph.ORDER_EXPOSING:
                continue
            if name == "into_iter" and (selfty.lstrip("&").startswith("std::collections::hash_map::") or selfty.lstrip("&").startswith("std::collections::hash_set::")):
                continue
            n_sites += 1
            elem = t.get("dty", "")
            key = "%s/%s/%s" % (p, name, elem.split("<", 1)[-1][:60].replace(" ", ""))
            kind, what = sink_of_iteration(body, bb)
            free = order_free_sink(body, bb, kind, what)
            if free:
                ck.ob("R-order-free-sink", key, True, sample={"fn": p, "iterates": elem[:100], "sink": free[:100]})
                continue
            exc = None
            for (fn_, tyname), v in SINGLE_SURVIVOR.items():
                if p == fn_ and tyname in elem:
                    exc = v
            if exc:
                tf = fns.get(exc[0])
                if ck.require(tf is not None, "table function " + exc[0]):
                    ents = table_entries(tf, exc[1])
                    nsurv = len([e for e in ents if exc[2](e)])
                    ck.ob("R-single-survivor", key, len(ents) >= 2 and nsurv == 1,
                          "%s iterates a hash map of %s in hash order; accepted only while exactly one table entry passes its filter (%s), found %d of %d"
                          % (p, tyname, exc[3], nsurv, len(ents)), sample={"fn": p, "table_entries": len(ents), "survivors": nsurv})
                continue
            ck.ob("R-hash-order-into-output", key, False,
                  "%s (%s:%s) iterates %s in hash order and the sequence reaches %s: output order differs between processes"
                  % (p, f["span"].split(":")[0], t.get("line"), elem[:120], what),
                  detail={"fn": p, "line": t.get("line"), "iterates": elem, "sink": what, "path_from_main": cg.path_to(p)})
    ck.extra["hash_iteration_sites_reachable"] = n_sites
    ck.floor("hash iteration sites examined", n_sites, 4)
    for p in sorted(reach):
        for x in callgraph.nondet_sites(fns[p]):
            if x["callee"].startswith("std::env::"):
                continue
            ck.violation("R-nondet-source", "%s/%s" % (p, x["callee"]), "%s calls %s" % (p, x["callee"]))
    ck.ob("R-nondet-source", "reachable-set", True, sample={"note": "no time/thread/random/read_dir call reachable from main"})
    # positive / negative controls of the detector
    ctl = corpus.controls_facts()
    cfn = {f["path"]: f for f in ctl.fns()}
    pos = cfn.get("cgv_controls::hash_order_into_output")
    neg = cfn.get("cgv_controls::hash_to_hash")
    if ck.require(pos is not None and neg is not None, "control functions"):
        ck.require(len(callgraph.hash_order_sites(pos)) >= 1, "control hash_order_into_output is seen as a hash-order site")
        pos2, neg2 = cfn.get("cgv_controls::hash_passed_as_iterable"), cfn.get("cgv_controls::hash_passed_to_sorted")
        if ck.require(pos2 is not None and neg2 is not None, "control functions (handed-over iterables)"):
            ck.require(len(callgraph.hash_order_sites(pos2)) == 1, "control hash_passed_as_iterable (String::extend(set)) is seen as a hash-order site")
            ck.require(len(callgraph.hash_order_sites(neg2)) == 0, "control hash_passed_to_sorted (BTreeSet::extend(set)) is order-free")
        nb = mir.Body(neg)
        sites = [bb for bb, t in nb.calls() if (t.get("callee") or {}).get("name") == "into_iter" and "HashMap<" in " ".join((t.get("callee") or {}).get("args", []))]
        ck.require(len(sites) == 1 and sink_of_iteration(nb, sites[0])[0] == "collect", "control hash_to_hash is classified as an order-free sink")

    # ---- (A) argument partition ---------------------------------------------------------------------------
    mf = fns[main]
    body = mir.Body(mf)

    def dashdash_closure(o):
        """closure aggregate whose body compares its argument with the string "--" """
        if not (o[0] == "agg" and str(o[1]).startswith("closure:")):
            return False
        cf = fns.get(o[1][len("closure:"):])
        if cf is None:
            return False
        txt = repr(cf["body"]) + repr(cf.get("promoted", []))
        return "'--'" in txt or '"--"' in txt

    def from_args(o):
        return mir.contains(o, lambda x: x[0] == "call" and x[1].endswith("env::args"))
    seeds, fixed = {}, set()
    # (a) iterator form: args().take_while(|v| v != "--") / args().skip_while(|v| v != "--"), collected
    for bb, t in body.calls():
        c = t.get("callee") or {}
        if c.get("name") == "collect":
            o = body.origin_operand(t["args"][0])
            tw = [x for x in mir.walk(o) if x[0] == "call" and x[1].split("::")[-1] in ("take_while", "skip_while") and len(x[2]) > 1 and dashdash_closure(x[2][1])]
            if from_args(o) and len(tw) == 1:
                seeds[t["d"]["l"]] = {"PRE" if tw[0][1].endswith("take_while") else "POST"}
                fixed.add(t["d"]["l"])
    # (a') `argv.split(|v| v == "--").next()` -- the first piece is the pre part
    for bb, t in body.calls():
        c = t.get("callee") or {}
        if c.get("name") == "next":
            o = body.origin_operand(t["args"][0])
            sp = [x for x in mir.walk(o) if x[0] == "call" and x[1].split("::")[-1] in ("split", "splitn") and len(x[2]) > 1 and dashdash_closure(x[2][-1])]
            if from_args(o) and len(sp) == 1 and not mir.contains(o, lambda x: x[0] == "call" and x[1].split("::")[-1] in ("skip", "nth", "last", "rev")):
                seeds[t["d"]["l"]] = {"PRE"}
                fixed.add(t["d"]["l"])
    # (b) slice form: idx = X.iter().position(|v| v == "--") [.unwrap_or(..)] ; &X[..idx] is the pre part, &X[idx..] the post part
    pos_seeds = {}
    for bb, t in body.calls():
        c = t.get("callee") or {}
        if c.get("name") == "position" and len(t["args"]) > 1 and dashdash_closure(body.origin_operand(t["args"][1])) and from_args(body.origin_operand(t["args"][0])):
            pos_seeds[t["d"]["l"]] = {"POS"}
    pos_t = taint.propagate(body, pos_seeds) if pos_seeds else {}
    for bb, t in body.calls():
        c = t.get("callee") or {}
        if c.get("name") in ("index", "index_mut", "get") and len(t["args"]) > 1 and from_args(body.origin_operand(t["args"][0])):
            r = body.origin_operand(t["args"][1])
            if r[0] == "agg" and str(r[1]).split("::")[-1] in ("RangeTo", "RangeFrom", "Range"):
                kind = str(r[1]).split("::")[-1]
                # which bound derives from the position of "--"
                bound_pos = {}
                # operands of the aggregate statement (to ask the taint of each bound)
                for i2 in sorted(body.live_blocks()):
                    for st_ in body.blocks[i2]["s"]:
                        if st_["k"] == "assign" and st_["r"]["k"] == "agg" and st_["r"].get("adt") == r[1] and body.origin_rvalue(st_["r"]) == r:
                            for nm, op in zip(st_["r"]["fields"], st_["r"]["ops"]):
                                bound_pos[nm] = "POS" in taint.operand_taint(body, pos_t, op)
                if kind == "RangeTo" and bound_pos.get("end"):
                    seeds[t["d"]["l"]] = {"PRE"}
                    fixed.add(t["d"]["l"])
                elif kind == "Range" and bound_pos.get("end") and not bound_pos.get("start"):
                    seeds[t["d"]["l"]] = {"PRE"}
                    fixed.add(t["d"]["l"])
                elif kind == "RangeFrom" and bound_pos.get("start"):
                    seeds[t["d"]["l"]] = {"POST"}
                    fixed.add(t["d"]["l"])
    # (b') the slice is cut inside a closure applied to the position: `position(..).map_or(&[][..], |start| &argv[start..])`
    for bb, t in body.calls():
        c = t.get("callee") or {}
        if c.get("name") in ("map", "map_or", "map_or_else", "and_then") and t["args"] and "POS" in taint.operand_taint(body, pos_t, t["args"][0]):
            clo = body.origin_operand(t["args"][-1])
            cf = fns.get(clo[1][len("closure:"):]) if clo[0] == "agg" and str(clo[1]).startswith("closure:") else None
            if cf is None or not any(from_args(x) for x in clo[4]):
                continue
            cb = mir.Body(cf)
            kinds = set()
            for i2 in sorted(cb.live_blocks()):
                for st_ in cb.blocks[i2]["s"]:
                    if st_["k"] == "assign" and st_["r"]["k"] == "agg" and str(st_["r"].get("adt", "")).split("::")[-1] in ("RangeFrom", "RangeTo"):
                        # the bound is the closure's own argument (the position)
                        if all(mir.strip(cb.origin_operand(op)) == ("arg", 2) for op in st_["r"]["ops"]):
                            kinds.add(str(st_["r"]["adt"]).split("::")[-1])
            if kinds == {"RangeFrom"}:
                seeds[t["d"]["l"]] = {"POST"}
                fixed.add(t["d"]["l"])
            elif kinds == {"RangeTo"}:
                seeds[t["d"]["l"]] = {"PRE"}
                fixed.add(t["d"]["l"])
    ck.ob("A-two-argument-vectors", "main", sorted(set(sum((sorted(v) for v in seeds.values()), []))) == ["POST", "PRE"],
          "main does not split env::args() at `--` into a pre part and a post part (take_while/skip_while on `!= \"--\"`, or slices cut at the position of \"--\"): %s" % seeds)
    # the processed header: whatever parse_header returned (label HDR), followed through locals and into helpers
    for bb, t in body.calls():
        if ((t.get("callee") or {}).get("path") or "").endswith("::parse_header") and not t["d"]["p"]:
            seeds.setdefault(t["d"]["l"], set()).add("HDR")
    tn = taint.propagate(body, seeds, fixed)
    counters = {"cmd": 0, "open": 0, "create": 0}

    def scan(fbody, ftaint, where, depth=0):
        """Sinks of the partition clause in one body; crate-local callees that receive labelled values are scanned with the labels of
        their parameters (one level is what main's helpers need)."""
        for bb, t in fbody.calls():
            c = t.get("callee") or {}
            p = c.get("path", "")
            if p.endswith("Command::args"):
                labels = taint.operand_taint(fbody, ftaint, t["args"][1])
                counters["cmd"] += 1
                ck.ob("A-cbindgen-args-only-post", "%s/Command::args@%d" % (where, counters["cmd"]), "PRE" not in labels,
                      "a value derived from the pre-`--` arguments reaches Command::args", sample={"labels": sorted(labels)})
                if "POST" in labels:
                    counters["post_forwarded"] = True
            if p.endswith("File::open") or p in ("std::fs::read", "std::fs::read_to_string"):
                labels = taint.operand_taint(fbody, ftaint, t["args"][0])
                counters["open"] += 1
                ck.ob("A-config-path-only-pre", "%s/%s" % (where, p.split("::")[-1]), labels == {"PRE"}, "the config file path is derived from %s" % sorted(labels), sample={"labels": sorted(labels)})
            if p.endswith("File::create") or p == "std::fs::write":
                labels = taint.operand_taint(fbody, ftaint, t["args"][0])
                counters["create"] += 1
                ck.ob("A-output-path-from-post", "%s/%s" % (where, p.split("::")[-1]), labels == {"POST"}, "the output path is derived from %s" % sorted(labels))
            if c.get("name") in ("write_all", "write") and len(t["args"]) > 1:
                o = fbody.origin_operand(t["args"][1])
                ok = mir.contains(o, lambda x: x[0] == "call" and x[1].endswith("::parse_header")) or "HDR" in taint.operand_taint(fbody, ftaint, t["args"][1])
                ck.ob("A-written-value-is-processed-header", "%s/%s" % (where, c.get("name")), ok, "%s writes %s to the output file, not the result of parse_header" % (where, mir.fmt(o)[:160]))
            if p == "std::fs::write" and len(t["args"]) > 1:
                ok = "HDR" in taint.operand_taint(fbody, ftaint, t["args"][1])
                ck.ob("A-written-value-is-processed-header", "%s/fs::write" % where, ok, "%s writes something else than the result of parse_header to the output file" % where)
            callee = fns.get((c.get("res") or {}).get("path") or p)
            if callee is not None and depth < 2 and "::{closure" not in callee["path"] and not callee["path"].endswith("parse_header"):
                cb = mir.Body(callee)
                cseeds = {}
                for idx, a in enumerate(t["args"]):
                    labels = taint.operand_taint(fbody, ftaint, a)
                    if labels:
                        cseeds[idx + 1] = set(labels)
                if cseeds:
                    scan(cb, taint.propagate(cb, cseeds), callee["path"].split("::")[-1], depth + 1)
    scan(body, tn, "main")
    ck.ob("A-config-path-only-pre", "main/config-is-read", counters["open"] >= 1, "no file read whose path comes from the pre-`--` arguments was found (config handling)")
    ck.ob("A-output-path-from-post", "main/output-is-written", counters["create"] >= 1, "no file creation whose path comes from the post-`--` arguments was found (output hijack)")
    ck.ob("A-post-args-forwarded", "main", bool(counters.get("post_forwarded")), "no Command::args call receives the post-`--` arguments")
    ck.floor("Command::args calls", counters["cmd"], 2)
    return ck.finish(
        "call-graph reachability from main of order-exposing hash iteration with per-site sink classification (unordered sink / single-survivor "
        "constant table / flows into output), and taint propagation in main for the pre/post `--` argument partition and the written value",
        rule_text="obligation = one reachable hash-iteration site / one sink of the argument partition",
        trusted=["taint propagation is flow-insensitive over main's locals; the exact windows(2) filtering of `-o` is not decided"])
