"""C02 -- arguments and results cross the boundary unaltered (conversion-pair agreement per position).

For every argument and return position of every generated method, the conversion applied on the Rust side of the vtable call
(opaque impl) and the one applied on the C side (wrapper) must form a row of the inverse-pair table, or both be identity.
Losslessness of each row for all values is C12 (slices, options, results, tuples) and C13 (integer codes); this check decides
that the two sides agree, position by position, and that the shape expected for the Rust type is the one used.
"""
import re
from lib import corpus, facts, mir, model, report, forward
from rules.c01_tables import CUSTOM_IMPL

n = forward.norm_impl
S = "cglue::slice::"
# (conversion to C, conversion back) -- inverse pairs; impl paths without lifetimes
PAIRS = {
    ("from", n("<cglue::slice::CSliceRef<'a, T> as std::convert::From<&'a [T]>>")): ("from", n("cglue::slice::<impl std::convert::From<cglue::slice::CSliceRef<'a, T>> for &'a [T]>")),
    ("from", n("<cglue::slice::CSliceMut<'a, T> as std::convert::From<&'a mut [T]>>")): ("from", n("cglue::slice::<impl std::convert::From<cglue::slice::CSliceMut<'a, T>> for &'a mut [T]>")),
    ("from", n("<cglue::slice::CSliceRef<'a, u8> as std::convert::From<&'a str>>")): ("into_str", n("cglue::slice::CSliceRef::<'a, u8>::into_str")),
    ("from", n("<cglue::option::COption<T> as std::convert::From<std::option::Option<T>>>")): ("from", n("cglue::option::<impl std::convert::From<cglue::option::COption<T>> for std::option::Option<T>>")),
    ("from", n("<cglue::result::CResult<T, E> as std::convert::From<std::result::Result<T, E>>>")): ("from", n("cglue::result::<impl std::convert::From<cglue::result::CResult<T, E>> for std::result::Result<T, E>>")),
    ("user_into",): ("id",),
    ("id",): ("id",),
}
# which row a Rust-side type must use
def expected_row(rust_ty):
    t = re.sub(r"'\w+ ", "", rust_ty).strip()
    if re.match(r"^&mut \[.*\]$", t):
        return n("<cglue::slice::CSliceMut<'a, T> as std::convert::From<&'a mut [T]>>")
    if re.match(r"^&\[.*\]$", t):
        return n("<cglue::slice::CSliceRef<'a, T> as std::convert::From<&'a [T]>>")
    if t == "&str":
        return n("<cglue::slice::CSliceRef<'a, u8> as std::convert::From<&'a str>>")
    if t.startswith("std::result::Result<"):
        return n("<cglue::result::CResult<T, E> as std::convert::From<std::result::Result<T, E>>>")
    if t.startswith("std::option::Option<"):
        inner = t[len("std::option::Option<"):-1]
        npo = inner.startswith("&") or inner.startswith("std::num::NonZero<") or inner.startswith("std::ptr::NonNull<") or inner.startswith("std::boxed::Box<") \
            or "fn(" in inner.split("<")[0]
        if not npo:
            return n("<cglue::option::COption<T> as std::convert::From<std::option::Option<T>>>")
    return None


INNER_WRAPPED = set()


def closure_is_identity(m, fr):
    """`ret.map(|ret| ret)`: the closure passed to Result::map returns its argument unchanged."""
    # the closure type appears among the generic args of map; its def path is `<wrapper path>::{closure#N}`
    for a in (fr[1] if fr else ()):
        mm = re.search(r"\{closure@", a)
    return None


def ret_kind(chain, m=None, owner=None):
    """Return-position conversion: drop int-result / identity-map plumbing and classify the rest."""
    if chain is None:
        return ("unknown",)
    if m is not None and owner is not None:
        keep = []
        for c in chain:
            if c[0].endswith("Result::<T, E>::map"):
                # identity iff every closure defined in the owner returns its own argument
                cl = [f for p, fs in m.fns.items() if p.startswith(owner + "::{closure") for f in fs]
                ident = bool(cl) and all(mir.strip(mir.Body(f).origin_local(0)) == ("arg", 2) for f in cl)
                if not ident:
                    INNER_WRAPPED.add(owner)   # Ok payload is itself wrapped into an opaque object inside the closure
                continue
            keep.append(c)
        chain = keep
    real = [c for c in chain if not c[0].startswith("<cast")]
    names = [c[0] for c in real]
    if any(x.endswith("into_int_out_result") or x.endswith("into_int_result") for x in names):
        return ("int",)
    if any(x.endswith("from_int_result") or x.endswith("from_int_result_empty") for x in names):
        return ("int",)
    return forward.conv_kind([c for c in chain])


def check_model(ck, m, label, stats):
    for g in m.gen_traits:
        if "::ffi_controls::" in g.vtbl_path:
            continue
        meths = {it["name"]: it for it in g.trait["items"] if it["kind"] == "fn"} if g.trait else {}
        for name, _ in g.fn_fields():
            w, of = g.wrappers.get(name), g.opaque.get(name)
            if w is None or of is None or (g.trait_path, name) in CUSTOM_IMPL:
                continue
            wi = forward.analyze_wrapper(g, name, w)
            oi = forward.analyze_opaque(g, name, of)
            if len(wi.trait_calls) != 1 or len(oi.icalls) != 1:
                continue    # reported by C01
            stats["methods"] += 1
            key = "%s/%s.%s" % (label, g.vtbl_path, name)
            tys = meths.get(name, {}).get("inputs", [None] * 20)
            for wa, oa in zip(wi.args, oi.args):
                k = wa["pos"]
                to_c, back = oa["conv"], wa["conv"]
                stats["positions"] += 1
                row_ok = PAIRS.get(to_c) == back
                ck.ob("P-arg-pair", "%s/arg%d" % (key, k), row_ok,
                      "%s argument %d: Rust side applies %s, C side applies %s -- not an inverse pair" % (g.trait_path + "::" + name, k, to_c, back),
                      sample={"method": g.trait_path + "::" + name, "arg": k, "to_c": str(to_c)[:90], "back": str(back)[:90]})
            oargs = [a for a in oi.args if not (a["param"] is None and "MaybeUninit::<T>::uninit" in mir.fmt(a["origin"]))]
            ck.ob("P-arg-count", key, len(wi.args) == len(oargs), "%s: %d arguments on the Rust side, %d on the C side" % (name, len(oargs), len(wi.args)))
            # return position
            wr, orr = ret_kind(wi.ret_chain, m, w["path"]), ret_kind(oi.ret_chain)
            stats["positions"] += 1
            if wr == ("int",) or orr == ("int",):
                ck.ob("P-ret-pair", key + "/ret", wr == orr, "%s: integer-result plumbing on one side only (C side %s, Rust side %s)" % (name, wr, orr))
            elif wr[0] in ("other", "unknown") or orr[0] in ("other", "unknown"):
                # wrapped returns (objects, groups, Self, return_wrap): the opaque type *is* the associated type on the Rust side
                wrapped = wi.ret_chain is None or any("into_opaque" in c[0] or "call_mut" in c[0] or "call_once" in c[0] or c[0] == "<indirect>" for c in (wi.ret_chain or [])) \
                    or any("build_with_ccont" in c[0] for c in (oi.ret_chain or []))
                stats["wrapped_returns"] += 1
                ck.ob("P-ret-wrapped", key + "/ret", wrapped, "%s: unrecognised return conversion (C side %s, Rust side %s)" % (name, wr, orr),
                      sample={"method": name, "c_side": str(wr)[:80], "rust_side": str(orr)[:80]})
            else:
                ck.ob("P-ret-pair", key + "/ret", PAIRS.get(wr) == orr,
                      "%s return value: C side applies %s, Rust side applies %s -- not an inverse pair" % (g.trait_path + "::" + name, wr, orr),
                      sample={"method": g.trait_path + "::" + name, "to_c": str(wr)[:90], "back": str(orr)[:90]})


def run(tier):
    ck = report.Check("C02", tier, level="other")
    stats = {"methods": 0, "positions": 0, "wrapped_returns": 0}
    cf = corpus.corpus_facts(tier)
    ck.unit("corpus-%s" % tier)
    check_model(ck, model.Model(cf), "corpus", stats)
    ck.floor("argument/return positions in corpus", stats["positions"], 400 if tier == "quick" else 2950)
    ct = facts.cfg_cglue(tests=True)
    ck.unit("cglue --tests")
    check_model(ck, model.Model(ct, "cglue-test"), "cglue-tests", stats)
    ex = facts.cfg_examples()
    ck.unit("examples")
    check_model(ck, model.Model(ex), "examples", stats)
    # clause (b): every row of the pair table is lossless for all values (same rules as C12; a row that special-cases a length,
    # copies the contents or changes a variant breaks "arrives identical" even though both sides still agree)
    from rules import c12
    c12.check_rows(ck)
    # integer-coded results are one of the converted shapes: the four encode/decode helpers, the shipped error encodings, and the
    # out-parameter plumbing of every generated int-result method (same rules as C13)
    from rules import c13
    fl = c13.check_helpers(ck)
    c13.check_interr_impls(ck, fl, "cglue-lib", "cglue")
    c13.check_plumbing(ck, model.Model(cf), "corpus")
    ck.floor("corpus methods with a stated transport", c13.check_transport(ck, model.Model(cf), "corpus", c13.corpus_transport_expect(corpus.expect(tier))), 300)
    c13.check_plumbing(ck, model.Model(ct, "cglue-test"), "cglue-tests")
    stats["result_payload_wrapped_inside_map"] = len(INNER_WRAPPED)
    ck.extra.update(stats)
    return ck.finish(
        "sibling agreement, type-resolved: for every argument and return position of every generated method the conversion resolved in the opaque "
        "impl (Rust side) and the one resolved in the extern \"C\" wrapper form an inverse pair of a fixed table (slice/str/COption/CResult/int/impl Into) "
        "or are both identity (which row a type *should* use is an FFI-safety question decided by C03, not a condition of this property). "
        "Value equality itself is implied by pair agreement plus C12/C13; it is not enumerated here.",
        rule_text="obligation = one (method, position) pair",
        trusted=["pair table rows are lossless (decided by C12/C13)", "Instance::try_resolve identifies the From impl behind every Into::into"])
