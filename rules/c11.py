"""C11 -- CVec is observationally a Vec (per-operation summaries; operation sequences are derived by induction, not executed).

Affine summaries of push / pop / insert / remove (symbolic execution of the single success path in a linear domain over data, len,
index; `data` is re-versioned by reserve) are compared with Vec's specification; index guards dominate every unsafe operation;
growth and release go through the stored functions with (data, len, capacity) in order; element reads/writes pair with len -/+ 1.
Each operation preserving `len <= capacity` and `[0, len) initialised` gives the statement for every finite sequence.
"""
from lib import facts, mir, report, ledger, affine, sem
from lib.affine import Aff, Opaque

V = "cglue::vec::"
FIELDS = ("data", "len", "capacity")


LOCAL_FNS = {}
UNSIGNED = ("len0", "index", "additional", "capacity0")


def inline_getter(px, p, args):
    """Calls of small accessor functions of vec.rs (`len()`, `is_empty()`, `capacity()`, `as_ptr()` ...: one path, no calls) are executed
    in place on the caller's symbolic state, so `self.is_empty()` reads as `len == 0`."""
    fn = LOCAL_FNS.get(p)
    if fn is None or not args or args[0] != ("selfref",):
        return None
    body = mir.Body(fn)
    paths = body.paths_to_return()
    if len(paths) != 1 or any(body.blocks[b]["t"]["k"] == "call" for b in paths[0]):
        return None
    sub = affine.PathExec(body, paths[0], FIELDS, {})
    sub.fields = dict(px.fields)
    sub.run(lambda *_: Opaque("call"))
    if sub.fields != px.fields:
        return None
    return (sub.env.get(0, Opaque("ret")),)


def mk_on_call(events):
    def on_call(px, t, args):
        p = mir.callee_res(t) or mir.callee_path(t) or "<indirect>"
        got = inline_getter(px, p, args)
        if got is not None:
            return got[0]
        if p == V + "CVec::<T>::reserve":
            events.append(("reserve", args[1]))
            px.bump_self(("data", "capacity"))
            return Opaque("unit")
        if p.endswith("mut_ptr::<impl *mut T>::add") or p.endswith("const_ptr::<impl *const T>::add"):
            if isinstance(args[0], Aff) and isinstance(args[1], Aff):
                return args[0] + args[1]
            return Opaque("add")
        if p.endswith("::offset"):
            if isinstance(args[0], Aff) and isinstance(args[1], Aff):
                return args[0] + args[1]
            return Opaque("offset")
        if p == "std::ptr::copy" or p == "std::ptr::copy_nonoverlapping":
            events.append(("copy", args[0], args[1], args[2], p.split("::")[-1]))
            return Opaque("unit")
        if p == "std::ptr::write" or p.endswith("<impl *mut T>::write"):
            events.append(("write", args[0], args[1]))
            return Opaque("unit")
        if p == "std::ptr::read" or p.endswith("T>::read"):
            events.append(("read", args[0]))
            return Opaque("elem@%r" % (args[0],))
        events.append(("call", p, tuple(args)))
        return Opaque("ret:" + p)
    return on_call


def success_paths(body):
    return body.paths_to_return()


def run_op(fn, arg_syms):
    body = mir.Body(fn)
    out = []
    for path in success_paths(body):
        ev = []
        px = affine.PathExec(body, path, FIELDS, arg_syms)
        px.run(mk_on_call(ev))
        sets = [e for e in px.events if e[0] == "set"]
        out.append((path, ev, px.guards, px.fields, sets, px))
    return body, out


def guard_has(guards, kind, expr):
    """`guards` of one path, canonicalised: a <= b, !(a > b), b >= a ... are the same guard (affine.canon_guard)."""
    return (kind, expr) in affine.canon_guards(guards, UNSIGNED)


# ---- the four element operations on case summaries (lib/sem) with affine normalisation of addresses and lengths ------------------
FIDX = {"data": 0, "len": 1, "capacity": 2}


def aff(v):
    """Affine expression of a summary term over data/len/capacity/index symbols, or None."""
    v = sem.strip(v)
    if v[0] == "const" and isinstance(v[1], int):
        return Aff.const(v[1])
    if v[0] == "sym":
        return Aff.sym(v[1])
    if v[0] == "fld" and v[3] in FIDX and sem.strip(v[1]) == ("sym", "self"):
        return Aff.sym(v[3] + "0")
    if v[0] == "opq" and v[2][0] == "bin" and v[2][1] in ("Add", "AddUnchecked", "Sub", "SubUnchecked", "Offset"):
        a, b = aff(v[2][2]), aff(v[2][3])
        if a is None or b is None:
            return None
        return a - b if v[2][1].startswith("Sub") else a + b
    if v[0] == "pay" and v[2] == "Some" and sem.strip(v[1])[0] == "opq" and sem.strip(v[1])[2][0] == "call" and sem.strip(v[1])[2][1].endswith("checked_sub"):
        a, b = aff(sem.strip(v[1])[2][2][0]), aff(sem.strip(v[1])[2][2][1])
        return None if a is None or b is None else a - b
    if v[0] == "opq" and v[2][0] == "call" and v[2][1].split("::")[-1] in ("add", "offset", "sub", "wrapping_add") and len(v[2][2]) == 2:
        a, b = aff(v[2][2][0]), aff(v[2][2][1])
        if a is None or b is None:
            return None
        return a - b if v[2][1].endswith("::sub") else a + b
    return None


def sem_op(fns, fn, argnames):
    """Outcomes of one CVec operation: [(kind, guards (canonical), events, final len (Aff), returned term, outcome)]."""
    reserve_path = V + "CVec::<T>::reserve"
    ev = sem.Evaluator(fns, {}, inline=lambda p: p in fns and p != reserve_path)
    me = ("sym", "self")
    counter = [0]

    def on_opaque(ev_, st, path, args):
        if path == reserve_path:
            counter[0] += 1
            for nm in ("data", "capacity"):
                ev_._write(st, ("ext", me), (("f", FIDX[nm], nm),), ("sym", "%s%d" % (nm, counter[0])))
    ev.on_opaque = on_opaque
    outs = ev.run(fn, [me] + [("sym", n) for n in argnames])
    res = []
    for o in outs:
        guards = []
        for c in o.conds:
            t = sem.strip(c[1])
            if c[0] == "eq" and t[0] == "opq" and t[2][0] == "bin" and t[2][1] in ("Le", "Lt", "Ge", "Gt", "Eq", "Ne"):
                a, b = aff(t[2][2]), aff(t[2][3])
                if a is not None and b is not None:
                    guards.append((t[2][1], a, b, c[2] == 1))
            elif c[0] in ("eq", "ne") and aff(t) is not None:
                val = c[2] if c[0] == "eq" else c[2][0]
                guards.append(("Eq", aff(t), Aff.const(val), c[0] == "eq"))
            elif c[0] == "discr" and t[0] == "opq" and t[2][0] == "call" and t[2][1].endswith("checked_sub"):
                # `a.checked_sub(b)` is Some exactly when a >= b
                a, b = aff(t[2][2][0]), aff(t[2][2][1])
                if a is not None and b is not None:
                    guards.append(("Ge", a, b, c[2] == "Some"))
        events = []
        for e in o.effects:
            if e[0] != "call":
                if e[0] == "icall":
                    events.append(("icall", e[1], e[2]))
                continue
            nm = e[1].split("::")[-1]
            if e[1] == reserve_path:
                events.append(("reserve", aff(e[2][1])))
            elif e[1] in ("std::ptr::copy", "std::ptr::copy_nonoverlapping") or e[1].endswith(("::copy_to", "::copy_from")):
                events.append(("copy", aff(e[2][0]), aff(e[2][1]), aff(e[2][2]), nm))
            elif nm == "write" and len(e[2]) == 2:
                events.append(("write", aff(e[2][0]), sem.strip(e[2][1])))
            elif nm == "read" and len(e[2]) == 1:
                events.append(("read", aff(e[2][0]), e[3]))
            elif nm in ("add", "offset", "sub", "checked_sub", "wrapping_add") or "::panicking::" in e[1] or e[1].endswith(("panic_fmt", "begin_panic", "panic_display", "panic_str")) or "fmt::Arguments" in e[1]:
                continue
            else:
                events.append(("call", e[1], e[2]))
        lenv = o.state.over.get((("ext", me), (("f", 1, "len"),)))
        flen = aff(lenv) if lenv is not None else Aff.sym("len0")
        res.append((o.kind, affine.canon_guards(guards, UNSIGNED), events, flen, o.ret if o.kind == "ret" else None, o))
    return res


def payload_of_checked_sub(v):
    return v


def sem_element_ops(ck, fns):
    """push / pop / insert / remove decided on case summaries; returns the set of operations decided (others fall back to the path rules)."""
    done = set()
    d0, l0, i = Aff.sym("data0"), Aff.sym("len0"), Aff.sym("index")
    d1 = Aff.sym("data1")
    one, zero = Aff.const(1), Aff.const(0)

    def copies(events):
        return [e for e in events if e[0] == "copy"]

    def others(events, kinds):
        return [e for e in events if e[0] not in kinds]
    # ---- push: reserve(1); write value at data'+len; len+1 (a shift of zero elements may or may not be spelled)
    fn = fns.get(V + "CVec::<T>::push")
    if fn:
        rs = [r for r in sem_op(fns, fn, ["value"])]
        if rs and all(r[0] == "ret" for r in rs):
            ok = True
            for kind, guards, ev_, flen, ret, o in rs:
                w = [e for e in ev_ if e[0] == "write"]
                rv = [e for e in ev_ if e[0] == "reserve"]
                cp = copies(ev_)
                ok = ok and len(rv) == 1 and rv[0][1] == one and ev_.index(rv[0]) == 0 and len(w) == 1 and w[0][1] == d1 + l0 and w[0][2] == ("sym", "value") \
                    and flen == l0 + one and not others(ev_, ("reserve", "write", "copy")) and all(c[3] == zero for c in cp)
            ck.ob("A-push-summary", "cglue/CVec::push", ok, "push must reserve(1), write the value at data+len (data read after reserve) and set len = len+1: %s" % [(r[2], r[3]) for r in rs],
                  sample={"op": "push", "write_at": "data' + len0", "len'": "len0 + 1"})
            done.add("push")
    # ---- pop
    fn = fns.get(V + "CVec::<T>::pop")
    if fn:
        rs = sem_op(fns, fn, [])
        if rs and all(r[0] == "ret" for r in rs):
            seen_none = seen_some = False
            ok = True
            for kind, guards, ev_, flen, ret, o in rs:
                r = sem.strip(ret)
                if ("eq0", l0) in guards:
                    seen_none = True
                    ok = ok and not ev_ and flen == l0 and sem.variant_of(r) == "None"
                elif ("ne0", l0) in guards or ("ge0", l0 - one) in guards:
                    seen_some = True
                    rd = [e for e in ev_ if e[0] == "read"]
                    ok = ok and len(ev_) == 1 and len(rd) == 1 and rd[0][1] == d0 + l0 - one and flen == l0 - one and sem.variant_of(r) == "Some" \
                        and sem.strip(r[4][0])[0] == "opq" and sem.strip(r[4][0])[1] == rd[0][2]
                else:
                    ok = False
            ck.ob("A-pop-summary", "cglue/CVec::pop", ok and seen_none and seen_some,
                  "pop must return None untouched iff len == 0, else set len = len-1 and return the element read at data+len-1: %s" % [(r[1], r[2], r[3]) for r in rs],
                  sample={"op": "pop", "read_at": "data0 + len0 - 1", "len'": "len0 - 1"})
            done.add("pop")
    # ---- insert
    fn = fns.get(V + "CVec::<T>::insert")
    if fn:
        rs = sem_op(fns, fn, ["index", "element"])
        rets = [r for r in rs if r[0] == "ret"]
        if rs and rets and all(r[0] in ("ret", "panic") for r in rs):
            ok = True
            for kind, guards, ev_, flen, ret, o in rs:
                if kind == "panic":
                    # only the failed bound check may panic, before anything was touched
                    ok = ok and ("ge0", i - l0 - one) in guards and not ev_
                    continue
                rv = [e for e in ev_ if e[0] == "reserve"]
                w = [e for e in ev_ if e[0] == "write"]
                cp = copies(ev_)
                shape = ("ge0", l0 - i) in guards and len(rv) == 1 and rv[0][1] == one and ev_.index(rv[0]) == 0 and len(w) == 1 and w[0][1] == d1 + i \
                    and w[0][2] == ("sym", "element") and flen == l0 + one and not others(ev_, ("reserve", "write", "copy")) and len(cp) <= 1
                if shape and cp:
                    shape = cp[0][1] == d1 + i and cp[0][2] == d1 + i + one and cp[0][3] == l0 - i and cp[0][4] == "copy" and ev_.index(cp[0]) < ev_.index(w[0])
                elif shape:
                    shape = ("eq0", affine._norm_sign(l0 - i)) in guards     # nothing to shift only when index == len
                ok = ok and shape
            ck.ob("G-insert-guard-first", "cglue/CVec::insert", any(r[0] == "panic" for r in rs), "insert has no failing bound check")
            ck.ob("A-insert-summary", "cglue/CVec::insert", ok,
                  "insert must check index <= len, reserve(1), shift [index, len) up by one with an overlapping copy (src=data+i, dst=data+i+1, count=len-i), write at data+i, len = len+1 "
                  "(all pointers from the data read after reserve): %s" % [(r[0], r[1], r[2], r[3]) for r in rs], sample={"op": "insert", "copy": "data'+i -> data'+i+1 x (len0-i)", "len'": "len0 + 1"})
            done.add("insert")
    # ---- remove
    fn = fns.get(V + "CVec::<T>::remove")
    if fn:
        rs = sem_op(fns, fn, ["index"])
        rets = [r for r in rs if r[0] == "ret"]
        if rs and rets and all(r[0] in ("ret", "panic") for r in rs):
            ok = True
            for kind, guards, ev_, flen, ret, o in rs:
                if kind == "panic":
                    ok = ok and ("ge0", i - l0) in guards and not ev_
                    continue
                rd = [e for e in ev_ if e[0] == "read"]
                cp = copies(ev_)
                shape = ("ge0", l0 - i - one) in guards and len(rd) == 1 and rd[0][1] == d0 + i and flen == l0 - one and not others(ev_, ("read", "copy")) and len(cp) <= 1
                r = sem.strip(ret)
                shape = shape and r[0] == "opq" and r[1] == rd[0][2] if shape else False
                if shape and cp:
                    shape = cp[0][1] == d0 + i + one and cp[0][2] == d0 + i and cp[0][3] == l0 - i - one and cp[0][4] == "copy" and ev_.index(rd[0]) < ev_.index(cp[0])
                elif shape:
                    shape = ("eq0", affine._norm_sign(l0 - i - one)) in guards
                ok = ok and shape
            ck.ob("A-remove-summary", "cglue/CVec::remove", ok,
                  "remove must check index < len, read data+i, shift (index, len) down by one (src=data+i+1, dst=data+i, count=len-i-1), len = len-1 and return the element read: %s"
                  % [(r[0], r[1], r[2], r[3]) for r in rs], sample={"op": "remove", "copy": "data+i+1 -> data+i x (len0-i-1)", "len'": "len0 - 1"})
            done.add("remove")
    return done


def check_reserve(ck, fns):
    """reserve grows only through the stored reserve_fn, exactly when the spare capacity is insufficient (shared with C05: any other way of
    obtaining a buffer in `reserve` allocates in the calling module)."""
    l0 = Aff.sym("len0")
    one = Aff.const(1)

    def need(name):
        fn = fns.get(V + "CVec::<T>::" + name)
        ck.require(fn is not None, "CVec::" + name)
        return fn
    # ---- reserve: grows through the stored function iff spare capacity is insufficient ------------------------------------
    fn = need("reserve")
    if fn:
        body, runs = run_op(fn, {2: "additional"})
        c0, add = Aff.sym("capacity0"), Aff.sym("additional")
        ok = len(runs) == 2
        grow = keep = False
        for path, ev, guards, fields, sets, px in runs:
            ics = [b for b in path if body.blocks[b]["t"]["k"] == "call" and body.blocks[b]["t"].get("callee") is None]
            others = [e for e in ev if not (e[0] == "call" and e[1] == "<indirect>")]
            if others:
                ok = False
            if len(ics) == 1:
                t = body.blocks[ics[0]]["t"]
                fo = mir.deepstrip(body.origin_operand(t["f"]))
                a0, a1 = mir.deepstrip(body.origin_operand(t["args"][0])), mir.deepstrip(body.origin_operand(t["args"][1]))
                # grows exactly when the spare capacity is insufficient: capacity - len < additional (`<=` only grows earlier)
                cond = guard_has(guards, "ge0", add - (c0 - l0) - one) or guard_has(guards, "ge0", add - (c0 - l0))
                grow = fo == ("field", ("arg", 1), "reserve_fn") and a0 == ("arg", 1) and a1 == ("arg", 2) and cond
            elif not ics:
                keep = guard_has(guards, "ge0", (c0 - l0) - add) or guard_has(guards, "ge0", (c0 - l0) - add - one)
            else:
                ok = False
        ok = ok and grow and keep
        ck.ob("R-reserve-through-stored-fn", "cglue/CVec::reserve", ok, "reserve must call its own reserve_fn(self, additional) whenever capacity - len < additional")


def check_stored_fn_positions(ck, f):
    """drop_fn(data, len, capacity): the function stored in the slot rebuilds the Vec from its parameters in that order, and CVec::drop
    passes its fields in that order (shared with C16: the order is part of the published C contract)."""
    fns = {x["path"]: x for x in f.fns("cglue-lib") if "/vec.rs" in x["span"]}
    dp = fns.get("<cglue::vec::CVec<T> as std::ops::Drop>::drop")
    if ck.require(dp is not None, "Drop for CVec"):
        body = mir.Body(dp)
        ic = [(bi, t) for bi, t in body.calls() if t.get("callee") is None]
        ok = len(ic) == 1
        if ok:
            args = [mir.peel_place(body.origin_operand(a)) for a in ic[0][1]["args"]]
            ok = args == [("field", ("arg", 1), "data"), ("field", ("arg", 1), "len"), ("field", ("arg", 1), "capacity")]
            if not ok:
                # through a helper returning the raw parts: decide on the summary
                ev = sem.Evaluator(fns, {}, inline=lambda p: p in fns)
                me = ("sym", "self")
                outs = ev.run(dp, [me])
                ok = bool(outs) and all(o.kind == "ret" for o in outs)
                for o in outs:
                    for e in o.effects:
                        if e[0] == "icall":
                            ok = ok and [sem.strip(a) for a in e[2]] == [("fld", me, 0, "data"), ("fld", me, 1, "len"), ("fld", me, 2, "capacity")]
        ck.ob("R-drop-passes-raw-parts-in-order", "cglue/CVec::drop", ok, "Drop must call drop_fn(data, len, capacity) in that order", sample={"args": ["data", "len", "capacity"]})
    fn = fns.get(V + "cglue_drop_vec")
    if ck.require(fn is not None, V + "cglue_drop_vec"):
        ev = sem.Evaluator(fns, {}, inline=lambda p: p in fns)
        a1, a2, a3 = ("sym", "data"), ("sym", "len"), ("sym", "capacity")
        outs = ev.run(fn, [a1, a2, a3])
        ok = bool(outs) and all(o.kind == "ret" for o in outs)
        for o in outs:
            cs = o.calls("Vec::<T>::from_raw_parts")
            ok = ok and len(cs) == 1 and [sem.strip(a) for a in cs[0][2]] == [a1, a2, a3]
        ck.ob("R-from-raw-parts-positional", "cglue/" + V + "cglue_drop_vec", ok, "%scglue_drop_vec must pass its (data, len, capacity) parameters to Vec::from_raw_parts in that order" % V)


def run(tier):
    ck = report.Check("C11", tier, level="other")
    f = facts.cfg_cglue()
    ck.unit("cglue lib: vec.rs")
    fns = {x["path"]: x for x in f.fns("cglue-lib") if "/vec.rs" in x["span"]}
    LOCAL_FNS.clear()
    LOCAL_FNS.update(fns)
    ck.floor("functions in vec.rs", len(fns), 22)
    d0, l0, i = Aff.sym("data0"), Aff.sym("len0"), Aff.sym("index")
    d1 = Aff.sym("data1")
    one = Aff.const(1)

    def need(name):
        fn = fns.get(V + "CVec::<T>::" + name)
        ck.require(fn is not None, "CVec::" + name)
        return fn

    sem_decided = sem_element_ops(ck, fns)
    # ---- push ------------------------------------------------------------------------------------------
    fn = need("push")
    if fn and "push" not in sem_decided:
        body, runs = run_op(fn, {2: "value"})
        ok = len(runs) == 1
        if ok:
            path, ev, guards, fields, sets, px = runs[0]
            kinds = [e[0] for e in ev]
            ok = kinds == ["reserve", "write"] and ev[0][1] == one and ev[1][1] == d1 + l0 and ev[1][2] == Aff.sym("value") and fields["len"] == l0 + one
            detail = "events=%s len'=%r" % (ev, fields["len"])
        ck.ob("A-push-summary", "cglue/CVec::push", ok, "push must reserve(1), write the value at data+len (data read after reserve) and set len = len+1: %s" % (detail if len(runs) == 1 else "paths=%d" % len(runs)),
              sample={"op": "push", "write_at": "data' + len0", "len'": "len0 + 1"})
    # ---- pop -------------------------------------------------------------------------------------------------
    fn = need("pop")
    if fn and "pop" not in sem_decided:
        body, runs = run_op(fn, {})
        ok = len(runs) == 2
        seen_none = seen_some = False
        for path, ev, guards, fields, sets, px in runs:
            if guard_has(guards, "eq0", l0):
                seen_none = not ev and fields["len"] == l0
            elif guard_has(guards, "ne0", l0):
                seen_some = [e[0] for e in ev] == ["read"] and ev[0][1] == d0 + l0 - one and fields["len"] == l0 - one
        ck.ob("A-pop-summary", "cglue/CVec::pop", ok and seen_none and seen_some,
              "pop must return None untouched iff len == 0, else set len = len-1 and read the element at data+len-1: %s" % [(r[1], r[3]["len"]) for r in runs],
              sample={"op": "pop", "read_at": "data0 + len0 - 1", "len'": "len0 - 1"})
    # ---- insert ----------------------------------------------------------------------------------------------------
    fn = need("insert")
    if fn and "insert" not in sem_decided:
        body, runs = run_op(fn, {2: "index", 3: "element"})
        ok = len(runs) == 1
        detail = ""
        if ok:
            path, ev, guards, fields, sets, px = runs[0]
            kinds = [e[0] for e in ev]
            okg = guard_has(guards, "ge0", l0 - i)
            ok = okg and kinds == ["reserve", "copy", "write"] and ev[0][1] == one \
                and ev[1][1] == d1 + i and ev[1][2] == d1 + i + one and ev[1][3] == l0 - i and ev[1][4] == "copy" \
                and ev[2][1] == d1 + i and ev[2][2] == Aff.sym("element") and fields["len"] == l0 + one
            detail = "guards=%s events=%s len'=%r" % (guards, ev, fields["len"])
            # the guard precedes every unsafe operation on the path
            gb = [b for b in path if body.blocks[b]["t"]["k"] == "switch"]
            first_unsafe = min(path.index(b) for b in path if body.blocks[b]["t"]["k"] == "call" and (mir.callee_res(body.blocks[b]["t"]) or "").startswith(("std::ptr::", V + "CVec::<T>::reserve")))
            ck.ob("G-insert-guard-first", "cglue/CVec::insert", bool(gb) and path.index(gb[0]) < first_unsafe, "insert performs unsafe work before checking index <= len")
        ck.ob("A-insert-summary", "cglue/CVec::insert", ok,
              "insert must check index <= len, reserve(1), shift [index, len) up by one with an overlapping copy (src=data+i, dst=data+i+1, count=len-i), write at data+i, len = len+1 "
              "(all pointers from the data read after reserve): %s" % detail, sample={"op": "insert", "copy": "data'+i -> data'+i+1 x (len0-i)", "len'": "len0 + 1"})
    # ---- remove ------------------------------------------------------------------------------------------------------
    fn = need("remove")
    if fn and "remove" not in sem_decided:
        body, runs = run_op(fn, {2: "index"})
        ok = len(runs) == 1
        detail = ""
        if ok:
            path, ev, guards, fields, sets, px = runs[0]
            kinds = [e[0] for e in ev]
            okg = guard_has(guards, "ge0", l0 - i - one)
            ok = okg and kinds == ["read", "copy"] and ev[0][1] == d0 + i and ev[1][1] == d0 + i + one and ev[1][2] == d0 + i and ev[1][3] == l0 - i - one and ev[1][4] == "copy" \
                and fields["len"] == l0 - one
            ret = px.env.get(0)
            ok = ok and isinstance(ret, Opaque) and str(ret.what).startswith("elem@")
            detail = "guards=%s events=%s len'=%r returns=%r" % (guards, ev, fields["len"], ret)
        ck.ob("A-remove-summary", "cglue/CVec::remove", ok,
              "remove must check index < len, read data+i, shift (index, len) down by one (src=data+i+1, dst=data+i, count=len-i-1), len = len-1 and return the element read: %s" % detail,
              sample={"op": "remove", "copy": "data+i+1 -> data+i x (len0-i-1)", "len'": "len0 - 1"})
    check_reserve(ck, fns)
    # ---- stored functions: raw parts in order ------------------------------------------------------------------------------------
    check_stored_fn_positions(ck, f)
    for name, kind in (("<cglue::vec::TempVec<'a, T> as std::convert::From<&'a mut cglue::vec::CVec<T>>>::from", "fields"),):
        fn = fns.get(name)
        if ck.require(fn is not None, name):
            body = mir.Body(fn)
            cs = [(bi, t) for bi, t in body.calls() if (mir.callee_res(t) or "") == "std::vec::Vec::<T>::from_raw_parts"]
            ok = len(cs) == 1
            if ok:
                args = [mir.deepstrip(body.origin_operand(a)) for a in cs[0][1]["args"]]
                if kind == "direct":
                    ok = args == [("arg", 1), ("arg", 2), ("arg", 3)]
                else:
                    ok = args == [("field", ("arg", 1), "data"), ("field", ("arg", 1), "len"), ("field", ("arg", 1), "capacity")]
            ck.ob("R-from-raw-parts-positional", "cglue/" + name, ok, "%s must pass (data, len, capacity) to Vec::from_raw_parts in that order" % name)
    ev = sem.Evaluator(fns, {}, inline=lambda p: p in fns)
    td = fns.get("<cglue::vec::TempVec<'a, T> as std::ops::Drop>::drop")
    sem_done = set()
    if td is not None:
        me = ("sym", "self")
        outs = ev.run(td, [me])
        if len(outs) == 1 and outs[0].kind == "ret":
            wrote = {}
            for (root, projs), val in outs[0].state.over.items():
                if root[0] == "ext" and sem.strip(root[1]) == ("fld", me, 1, "1") and len(projs) == 1 and projs[0][0] == "f":
                    v = sem.strip(val)
                    own = sem.contains(v, lambda x: x == ("fld", me, 0, "0") or (x[0] == "ref" and x[1] == ("ext", me) and tuple(x[2][:1]) == (("f", 0, "0"),)))
                    wrote[projs[0][2]] = v[2][1].split("::")[-1] if v[0] == "opq" and v[2][0] == "call" and own else sem.fmt(v)
            ck.ob("R-tempvec-writes-back", "cglue/TempVec::drop", wrote == {"data": "as_mut_ptr", "len": "len", "capacity": "capacity"},
                  "TempVec::drop must write the Vec's as_mut_ptr/len/capacity back to data/len/capacity: %s" % wrote, sample={"writes": wrote})
            sem_done.add("tempvec")
    if "tempvec" not in sem_done and ck.require(td is not None, "Drop for TempVec"):
        body = mir.Body(td)
        wrote = {}
        for bi in sorted(body.live_blocks()):
            for s in body.blocks[bi]["s"]:
                if s["k"] == "assign" and s["p"]["p"] and s["p"]["p"][-1][0] == "f" and s["p"]["p"][-1][2] in FIELDS:
                    o = body.origin_rvalue(s["r"])
                    wrote[s["p"]["p"][-1][2]] = o[1].split("::")[-1] if o[0] == "call" else mir.fmt(o)
        ck.ob("R-tempvec-writes-back", "cglue/TempVec::drop", wrote == {"data": "as_mut_ptr", "len": "len", "capacity": "capacity"},
              "TempVec::drop must write the Vec's as_mut_ptr/len/capacity back to data/len/capacity: %s" % wrote, sample={"writes": wrote})
    fv = fns.get("<cglue::vec::CVec<T> as std::convert::From<std::vec::Vec<T>>>::from")
    if fv is not None:
        vec = ("sym", "vec")
        outs = ev.run(fv, [vec])
        if len(outs) == 1 and outs[0].kind == "ret" and sem.strip(outs[0].ret)[0] == "agg":
            o = outs[0]
            r = sem.strip(o.ret)
            names = [fl["name"] for fl in [a for a in f.adts("cglue-lib") if a["path"] == V + "CVec"][0]["variants"][0]["fields"]]
            vals = dict(zip(names, r[4]))

            def getter(v):
                v = sem.strip(v)
                return v[2][1].split("::")[-1] if v[0] == "opq" and v[2][0] == "call" and sem.contains(v, lambda x: x == vec) else None

            def fnval(v):
                v = sem.strip(v)
                if v[0] == "agg" and v[3] == "Some" and v[4]:
                    v = sem.strip(v[4][0])
                return v[1] if v[0] == "fn" else None
            disarm = [e for e in o.calls() if (e[1] == "std::mem::forget" or e[1].endswith("ManuallyDrop::<T>::new")) and sem.strip(e[2][0]) == vec]
            dropped = [e for e in o.effects if e[0] == "drop" and sem.strip(e[1]) == vec]
            ok = getter(vals.get("data")) == "as_mut_ptr" and getter(vals.get("len")) == "len" and getter(vals.get("capacity")) == "capacity" \
                and fnval(vals.get("drop_fn")) == V + "cglue_drop_vec" and fnval(vals.get("reserve_fn")) == V + "cglue_reserve_vec" \
                and len(disarm) == 1 and not dropped
            ck.ob("R-from-vec-captures-raw-parts", "cglue/CVec::from(Vec)", ok,
                  "From<Vec> must store as_mut_ptr/len/capacity of the vector, its drop and reserve functions, and disarm the vector exactly once: %s" % o)
            sem_done.add("fromvec")
    if "fromvec" not in sem_done and ck.require(fv is not None, "From<Vec> for CVec"):
        body = mir.Body(fv)
        ret = body.origin_local(0)
        ok = ret[0] == "agg"
        if ok:
            ops = dict(zip(ret[3], ret[4]))
            def the_vec(o):
                # the argument itself, possibly wrapped in ManuallyDrop and reached through its Deref
                o = mir.deepstrip(o)
                while o[0] == "call" and (o[1] in ("std::ops::Deref::deref", "std::ops::DerefMut::deref_mut") or o[1].endswith("ManuallyDrop::<T>::new")):
                    o = mir.deepstrip(o[2][0])
                return o == ("arg", 1)

            def getter(o):
                return o[1].split("::")[-1] if o[0] == "call" and the_vec(o[2][0]) else None
            fnc = lambda o: (o[4][0] if o[0] == "agg" and o[2] == "Some" else o)
            dfn, rfn = fnc(ops["drop_fn"]), ops["reserve_fn"]
            while dfn[0] == "cast":
                dfn = dfn[2]
            while rfn[0] == "cast":
                rfn = rfn[2]
            ok = getter(ops["data"]) == "as_mut_ptr" and getter(ops["len"]) == "len" and getter(ops["capacity"]) == "capacity" \
                and dfn[0] == "fnconst" and dfn[1] == V + "cglue_drop_vec" and rfn[0] == "fnconst" and rfn[1] == V + "cglue_reserve_vec"
            sites = ledger.prim_sites(body)
            # the vector's own destructor is disarmed exactly once: mem::forget(vec) or ManuallyDrop::new(vec)
            ok = ok and [s.kind for s in sites] in (["forget"], ["manuallydrop_new"]) and body.origin_operand(sites[0].term["args"][0]) == ("arg", 1)
        ck.ob("R-from-vec-captures-raw-parts", "cglue/CVec::from(Vec)", ok, "From<Vec> must store as_mut_ptr/len/capacity of the vector, its drop and reserve functions, and forget the vector")
    rv = fns.get(V + "cglue_reserve_vec")
    if ck.require(rv is not None, "cglue_reserve_vec"):
        body = mir.Body(rv)
        names = [(mir.callee_res(t) or "").split("::")[-1] for _, t in body.calls()]
        ok = "reserve" in names and any("TempVec" in (mir.callee_res(t) or "") and (mir.callee_res(t) or "").endswith("::from") for _, t in body.calls())
        rs = [(bi, t) for bi, t in body.calls() if (mir.callee_res(t) or "").startswith("std::vec::Vec::<T, A>::reserve")]
        ok = ok and len(rs) == 1 and mir.deepstrip(body.origin_operand(rs[0][1]["args"][1])) == ("arg", 2)
        # ... on every path: a path that bypasses the TempVec round trip must leave the vector's fields alone (a buffer installed by
        # hand orphans the one the vector already owns, whatever its length)
        tf = [bi for bi, t in body.calls() if "TempVec" in (mir.callee_res(t) or "") and (mir.callee_res(t) or "").endswith("::from")]
        always = len(tf) == 1 and body.on_all_paths_to_return(tf[0]) and len(rs) == 1 and body.on_all_paths_to_return(rs[0][0])
        if ok and not always:
            direct = []
            for i in sorted(body.live_blocks()):
                for st_ in body.blocks[i]["s"]:
                    if st_["k"] == "assign" and st_["p"]["p"] and mir.deepstrip(body.origin_local(st_["p"]["l"])) == ("arg", 1):
                        direct.append(i)
            ok = not direct
        ck.ob("R-reserve-fn-rematerialises-and-writes-back", "cglue/cglue_reserve_vec", ok, "cglue_reserve_vec must rebuild the Vec through TempVec (which writes the new raw parts back) and reserve the requested amount")
    # Deref / DerefMut / Clone / Default
    for name, prim in (("<cglue::vec::CVec<T> as std::ops::Deref>::deref", "from_raw_parts"), ("<cglue::vec::CVec<T> as std::ops::DerefMut>::deref_mut", "from_raw_parts_mut")):
        fn = fns.get(name)
        if ck.require(fn is not None, name):
            body = mir.Body(fn)
            cs = [(bi, t) for bi, t in body.calls() if (mir.callee_res(t) or "").endswith("::" + prim)]
            def nocast(o):
                while o[0] == "cast":
                    o = o[2]
                return mir.deepstrip(o)
            ok = len(cs) == 1 and [nocast(body.origin_operand(a)) for a in cs[0][1]["args"]] == [("field", ("arg", 1), "data"), ("field", ("arg", 1), "len")]
            ck.ob("V-view-is-data-len", "cglue/" + name, ok, "%s must view exactly (data, len)" % name)
    # element ownership: every element read pairs with len - 1, every element write with len + 1 (from the summaries above);
    # no other function in vec.rs touches elements
    for p, fn in sorted(fns.items()):
        if p.startswith(V + "CVec::<T>::") and p.split("::")[-1] in ("push", "pop", "insert", "remove"):
            continue
        body = mir.Body(fn)
        el = [s for s in ledger.prim_sites(body) if s.kind in ("ptr_read", "ptr_write", "ptr_copy")]
        helper_ok = bool(el) and (fn.get("unsafe") or not fn.get("vis", "Public").startswith("Public")) and p.startswith(V + "CVec::<T>::") and all(q.startswith(V + "CVec::<T>::") and q.split("::")[-1] in ("push", "pop", "insert", "remove") for q, g in fns.items() for _, t in mir.Body(g).calls() if (mir.callee_res(t) or "") == p) and any((mir.callee_res(t) or "") == p for g in fns.values() for _, t in mir.Body(g).calls())
        ck.ob("E-no-other-element-access", "cglue/" + p, not el or helper_ok, "%s reads/writes elements outside push/pop/insert/remove: %s" % (p, el))
    return ck.finish(
        "symbolic execution of the success path of push/pop/insert/remove in an affine domain over (data, len, index) with `data` re-versioned by "
        "reserve, compared with Vec's specification (write/read/copy addresses, counts, new length, index guards); growth and release shown to go "
        "through the stored functions with raw parts in order; views are (data, len). Equality of contents over operation sequences is the inductive "
        "consequence of these per-operation summaries, it is not executed. Zero-sized T relies on Vec's own handling inside reserve.",
        rule_text="obligation = one (operation or helper, rule)",
        trusted=["Vec::from_raw_parts/reserve/capacity and ptr::copy/read/write semantics", "overflow checks (debug assertions) are not relied upon"])
