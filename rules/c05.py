"""C05 -- objects work across separately compiled modules: clause (b) allocator affinity (who-may-call), clause (a) by reference.

(b) Memory owned by a CBox / CSliceBox / CArc / CArcSome / CVec is released, cloned or grown only by functions whose address the
    value captured when it was created (so they run in the allocating module): every reclaim / rematerialise primitive in
    boxed.rs, arc.rs, vec.rs sits (i) in a function stored into a `*_fn` slot by a constructor -- all of them extern "C" and
    instantiated at the constructor's own T -- or (ii) in an `unsafe fn` whose contract is "same module" (IntoInner::into_inner,
    CArcSome::into_arc), whose only callers are generated extern "C" wrappers, or (iii) in a private helper called only from (i).
(a) every cross-module representation is layout-defined: decided by C03 (FFI-safety), C04 (generated layouts), C16 (runtime types).
(c) equality of observable results across {stable,nightly} x {debug,release} x layout seeds x allocators is a statement about builds;
    it is argued from (a)+(b) and NOT decided here.
"""
from lib import corpus, facts, mir, model, report, ledger
from rules import c06

FILES = ("/boxed.rs", "/arc.rs", "/vec.rs")
OWNERS = ("cglue::boxed::CBox", "cglue::boxed::CSliceBox", "cglue::arc::CArc", "cglue::arc::CArcSome", "cglue::vec::CVec")
RECLAIM = ("box_from_raw", "arc_from_raw", "vec_from_raw_parts", "drop_in_place", "basearc_from_raw")
INTO_INNER = "cglue::trait_group::IntoInner::into_inner"


PASS_THROUGH = ("Option::<T>::take", "Option::<T>::unwrap", "std::ops::Try::branch", "cglue::arc::CArc::<T>::take", "Option::<T>::as_ref", "Option::<T>::as_mut",
                "ManuallyDrop::<T>::new", "std::ops::Deref::deref", "std::ops::DerefMut::deref_mut", "std::mem::take")


def arg_roots(o):
    return {x[1] for x in mir.walk(o) if isinstance(x, tuple) and x and x[0] == "arg"}


def moved_from(o, roots, via_clone_slot=True):
    """True when origin `o` is a pure projection of the argument(s) `roots`: fields, derefs, Option plumbing, or the result of calling
    the *same* value's stored clone function.  Any other call (an allocation, a conversion of a local buffer) makes it a fresh pointer."""
    if not isinstance(o, tuple) or not o:
        return False
    k = o[0]
    if k == "arg":
        return o[1] in roots
    if k in ("field", "deref", "downcast"):
        return moved_from(o[1], roots)
    if k == "ref":
        return moved_from(o[1], roots)
    if k == "cast":
        return moved_from(o[2], roots)
    if k == "agg":
        ops = o[4] if len(o) > 4 else ()
        return bool(ops) and all(moved_from(x, roots) for x in ops)
    if k == "call":
        return any(o[1].endswith(sfx) for sfx in PASS_THROUGH) and all(moved_from(a, roots) for a in o[2])
    if k == "icall" and via_clone_slot:
        f = mir.deepstrip(o[1])
        return f[0] == "field" and f[2] == "clone_fn" and arg_roots(f) <= roots and all(moved_from(a, roots) for a in o[2])
    if k == "phi":
        return all(moved_from(x, roots) for x in o[1:] if isinstance(x, tuple))
    return False


def check_slot_travel(ck, mine):
    """B-slots-travel-with-their-pointer: a value may carry function pointers copied from another value only together with that
    value's own pointer (moved out of it, or produced by its stored clone function).  Copied slots around a freshly allocated
    buffer would hand memory of the running module to the functions of the module that created the *source* value."""
    n = 0
    for p, fn in sorted(mine.items()):
        body = mir.Body(fn)
        for i in sorted(body.live_blocks()):
            for st in body.blocks[i]["s"]:
                if not (st["k"] == "assign" and st["r"]["k"] == "agg" and st["r"].get("ak") == "adt" and st["r"]["adt"] in OWNERS):
                    continue
                fields = dict(zip(st["r"]["fields"], st["r"]["ops"]))
                copied = {}
                for fname, op in fields.items():
                    if not fname.endswith("_fn"):
                        continue
                    o = body.origin_operand(op)
                    if o[0] == "agg" and o[2] == "Some" and len(o) > 4 and o[4]:
                        o = o[4][0]
                    while o[0] == "cast":
                        o = o[2]
                    if o[0] == "fnconst" or (o[0] == "agg" and not (len(o) > 4 and o[4])) or o[0] == "const":
                        continue
                    copied[fname] = o
                n += 1
                key = "cglue/%s/%s" % (p, st["r"]["adt"].split("::")[-1])
                if not copied:
                    ck.ob("B-slots-travel-with-their-pointer", key, True, sample={"fn": p, "slots": "function items / None"})
                    continue
                roots = set()
                for o in copied.values():
                    roots |= arg_roots(o)
                ptrs = {fname: body.origin_operand(op) for fname, op in fields.items() if fname in ("instance", "data")}
                bad = [fname for fname, o in ptrs.items() if not moved_from(o, roots)]
                slots_ok = all(moved_from(o, roots, via_clone_slot=False) for o in copied.values()) and len(roots) == 1
                ck.ob("B-slots-travel-with-their-pointer", key, not bad and slots_ok and ptrs,
                      "%s builds a %s whose %s are copied from its argument while %s: the stored functions belong to the module that created the "
                      "source value, the pointer does not" % (p, st["r"]["adt"].split("::")[-1], sorted(copied),
                                                              "; ".join("%s = %s" % (b, mir.fmt(ptrs[b])[:120]) for b in bad) or "the slots come from several values"),
                      sample={"fn": p, "copied_slots": sorted(copied)})
    return n


def run(tier):
    ck = report.Check("C05", tier, level="other")
    f = facts.cfg_cglue()
    ck.unit("cglue lib: boxed.rs, arc.rs, vec.rs")
    fns = {x["path"]: x for x in f.fns("cglue-lib")}
    mine = {p: x for p, x in fns.items() if any(fl in x["span"] for fl in FILES) and "::tests::" not in p}
    # (i) functions captured at creation
    stored = {}
    for p, fn in mine.items():
        body = mir.Body(fn)
        for adt, flds in c06.slot_fn_in_aggregate(body).items():
            if adt in OWNERS:
                for fld, (fp, targs) in flds.items():
                    if fld.endswith("_fn"):
                        stored.setdefault(fp, []).append((p, adt, fld, targs))
    ck.floor("functions stored into *_fn slots", len(stored), 6)
    ck.floor("owner values constructed", check_slot_travel(ck, mine), 7)
    for fp, uses in sorted(stored.items()):
        sf = fns.get(fp)
        if not ck.require(sf is not None, "stored function %s" % fp):
            continue
        ck.ob("B-stored-fn-is-extern-c", "cglue/" + fp, sf.get("abi", "").startswith("C"), "%s is stored in a value that crosses module boundaries but is not extern \"C\" (abi %s)" % (fp, sf.get("abi")),
              sample={"fn": fp, "stored_by": [u[0] for u in uses][:3]})
        for (owner, adt, fld, targs) in uses:
            og = [g for g, k in fns[owner]["generics"] if k != "lt"]
            ck.ob("B-captured-at-own-type", "cglue/%s/%s.%s" % (owner, adt.split("::")[-1], fld), list(targs) == og[:len(targs)] and len(targs) >= 1,
                  "%s stores %s::<%s> although it is constructing a value over %s" % (owner, fp, ", ".join(targs), og))
    # callers map
    callers = {}
    for p, fn in fns.items():
        for _, t in mir.Body(fn).calls():
            cp = mir.callee_res(t)
            if cp:
                callers.setdefault(cp, set()).add(p)
    # every reclaim / rematerialise site
    n_sites = 0
    for p, fn in sorted(mine.items()):
        body = mir.Body(fn)
        sites = [s for s in ledger.prim_sites(body) if s.kind in RECLAIM]
        grows = [(i, t) for i, t in body.calls() if (mir.callee_res(t) or "").startswith("std::vec::Vec::<T, A>::reserve") or (mir.callee_res(t) or "").endswith("Vec::<T, A>::shrink_to_fit")]
        if not sites and not grows:
            continue
        n_sites += len(sites) + len(grows)
        key = "cglue/" + p
        kinds = [s.kind for s in sites] + ["vec_reserve"] * len(grows)
        if p in stored:
            ck.ob("B-reclaim-in-captured-fn", key, True, sample={"fn": p, "primitives": kinds, "class": "captured at creation"})
            continue
        # drop_in_place of a wrapper handle (not of the payload) just runs that handle's Drop, which goes through its slot
        if all(s.kind == "drop_in_place" and any(o.split("::")[-1] in " ".join(s.term["callee"].get("args", [])) for o in OWNERS) for s in sites) and not grows:
            ck.ob("B-reclaim-via-handle-drop", key, True, sample={"fn": p, "primitives": kinds, "class": "drops a handle, which uses its stored fn"})
            continue
        if fn.get("unsafe") and fn["def_kind"] != "Closure":
            ck.ob("B-reclaim-in-unsafe-same-module-fn", key, True, sample={"fn": p, "primitives": kinds, "class": "unsafe fn (same-module contract)"})
            continue
        cs = callers.get(p, set())
        priv = not fn.get("vis", "Public").startswith("Public") or "TempVec" in p
        if cs and all(c in stored for c in cs) and priv:
            ck.ob("B-reclaim-in-private-helper-of-captured-fn", key, True, sample={"fn": p, "primitives": kinds, "callers": sorted(cs)})
            continue
        ck.ob("B-reclaim-outside-captured-fn", key, False,
              "%s (%s) uses %s directly: memory owned by the value would be released/grown by whichever module runs this code, not by the module that allocated it "
              "(callers: %s)" % (p, fn["span"], kinds, sorted(cs)[:4]))
    ck.floor("reclaim / grow sites", n_sites, 9)
    # handles reach their stored functions through the slot only: indirect calls through *_fn exist for every owner type
    slot_users = {}
    for p, fn in mine.items():
        body = mir.Body(fn)
        for s in ledger.prim_sites(body, ledger.ROLE_SLOTS):
            if s.kind.startswith("slot:"):
                slot_users.setdefault(fn.get("impl_self_adt"), set()).add(s.kind)
    for o in OWNERS:
        if o.endswith("CArc"):
            continue    # CArc delegates to its CArcSome view
        ck.ob("B-owner-uses-its-slots", "cglue/" + o, "slot:drop_fn" in slot_users.get(o, set()), "%s never calls its stored drop function" % o, sample={"type": o, "slots": sorted(slot_users.get(o, []))})
    ck.ob("B-owner-uses-its-slots", "cglue/CVec::reserve", "slot:reserve_fn" in slot_users.get("cglue::vec::CVec", set()), "CVec never grows through its stored reserve function")
    # ... and through nothing else: every path of CVec::reserve either keeps the buffer or calls reserve_fn(self, additional)
    from rules import c11
    c11.LOCAL_FNS.clear()
    c11.LOCAL_FNS.update({p_: x for p_, x in fns.items() if "/vec.rs" in x["span"]})
    c11.check_reserve(ck, {p_: x for p_, x in fns.items() if "/vec.rs" in x["span"]})
    # (ii) callers of IntoInner::into_inner: generated extern "C" wrappers only
    n_ii = 0
    for ff, unit, label in ((corpus.corpus_facts(tier), None, "corpus"), (facts.cfg_cglue(tests=True), "cglue-test", "cglue-tests"), (facts.cfg_examples(), None, "examples")):
        ck.unit(label)
        for fn in ff.fns(unit):
            for _, t in mir.Body(fn).calls():
                if mir.callee_path(t) == INTO_INNER:
                    n_ii += 1
                    ck.ob("B-unboxing-only-in-extern-c-wrapper", "%s/%s" % (label, fn["path"]), fn.get("abi", "").startswith("C") and fn["exp"],
                          "%s calls IntoInner::into_inner outside a generated extern \"C\" wrapper: the box would be freed by the calling module's allocator" % fn["path"])
    ck.floor("into_inner call sites", n_ii, 30)
    ck.note("clause (a) is decided by C03/C04/C16; clause (c) (equal results across toolchains/opt-levels/layout seeds/allocators) is not decided by any static rule here")
    ck.note("ReprCString frees with the dropping module's allocator; it is not among the types C05 names and is noted, not reported")
    return ck.finish(
        "who-may-call rule: every reclaim / rematerialise / grow primitive on memory owned by CBox, CSliceBox, CArc, CArcSome, CVec sits in a function whose "
        "address the value captured at creation (extern \"C\", instantiated at the constructor's own T), in an unsafe same-module fn whose only callers are "
        "generated extern \"C\" wrappers, or in a private helper of such a function; handles reach them only through their stored slots",
        rule_text="obligation = one (function or call site, rule); captured functions are discovered from constructor aggregates, not listed",
        trusted=["clause (a) relies on C03/C04/C16", "clause (c) is argued, not checked"])
