"""C09 -- type erasure never adds Send or Sync.

Deciding step: rustc's trait solver evaluates `Send`/`Sync`/`Opaquable` and normalises `OpaqueTarget` for a complete
finite matrix of (wrapper x handle x context x payload class); a cell violates iff Src: Opaquable, Target: M, not Src: M.
A second family of cells compares each smart pointer with the std handle it is built from.
"""
from lib import corpus, facts, report

LEAF = {"fwdmut": "mut", "fwdref": "ref", "fwdbox": "cbox"}
REF_ROWS = {  # smart pointer handle -> std handle it is constructed from
    "cbox": "box", "csbox": "boxslice", "carc": "arc", "carcsome": "arc",
}


def run(tier):
    ck = report.Check("C09", tier, level="other")
    cf = corpus.corpus_facts(tier)
    exp = corpus.expect(tier)
    ck.unit("corpus-%s probes" % tier)
    probes = {p["name"]: p for p in cf.probes()}
    meta = {m["name"]: m for m in exp["probes"]}
    ck.require(all(n in probes for n in meta), "every generated probe alias was evaluated by the driver")
    n_auto = 0
    for n, p in probes.items():
        if n.startswith("AUTO_"):
            # AUTO_<Adt>_<handle>_<payload>_<ctx>: instantiated by the driver for every local ADT with an Opaquable impl
            parts = n.split("_")
            meta[n] = {"name": n, "wrapper": "gen:" + "_".join(parts[1:-3]), "handle": parts[-3], "payload": parts[-2], "ctx": parts[-1]}
            n_auto += 1
    ck.floor("automatic probes of generated Opaquable ADTs", n_auto, 400)
    for n, p in probes.items():
        if "error" in p:
            ck.broken.append("probe %s: %s" % (n, p["error"]))
    # bare verdicts first
    bare = {}
    for n, m in meta.items():
        if m["wrapper"] != "bare":
            continue
        p = probes[n]
        for mk in ("send", "sync"):
            added = bool(p.get("opaquable")) and p["target"][mk] and not p[mk]
            bare[(m["handle"], m["payload"], mk)] = added
    rows_per_handle = {}
    n_opq = 0
    for n, m in sorted(meta.items(), key=lambda kv: (kv[1]["wrapper"] != "bare", kv[1]["handle"] in LEAF, kv[0])):
        p = probes[n]
        rows_per_handle.setdefault(m["handle"], 0)
        if not p.get("opaquable"):
            # conversion refused by the type system for this payload: nothing can be added
            ck.ob("M-not-opaquable", "%s" % n, True, sample={"probe": n, "ty": p["ty"], "opaquable": False})
            continue
        n_opq += 1
        rows_per_handle[m["handle"]] += 1
        for mk in ("send", "sync"):
            added = p["target"][mk] and not p[mk]
            leaf = LEAF.get(m["handle"], m["handle"])
            if m["wrapper"] == "bare" and m["handle"] == leaf:
                key = "erasure-adds/%s/%s" % (leaf, mk.capitalize())
            else:
                # a wrapped (or forwarded) cell is a consequence of its leaf conversion when the bare leaf cell
                # of the same payload already adds a marker (e.g. CBox adding Sync surfaces as Send of `&Vtbl`)
                root = [k for k in ("send", "sync") if bare.get((leaf, m["payload"], k))]
                if root:
                    key = "erasure-adds/%s/%s" % (leaf, (mk if mk in root else root[0]).capitalize())
                else:
                    key = "erasure-adds/%s/%s/%s" % (m["wrapper"], m["handle"], mk.capitalize())
            ck.ob("M-cell", key if added else "%s/%s" % (n, mk), not added,
                  "opaque conversion of handle `%s` adds %s: %s is !%s but its OpaqueTarget %s is %s (payload class %s, wrapper %s)"
                  % (m["handle"], mk.capitalize(), p["ty"], mk.capitalize(), p["target"]["ty"], mk.capitalize(), m["payload"], m["wrapper"]),
                  detail={"probe": n, "src": p["ty"], "target": p["target"]["ty"]},
                  sample={"probe": n, "src_" + mk: p[mk], "target_" + mk: p["target"][mk]})
    # wrapper cells: an object/group/container is Send/Sync only if its instance handle is
    for n, m in sorted(meta.items()):
        if m["wrapper"] in ("bare", "phantom"):
            continue
        p = probes[n]
        hb = probes.get("SS_bare_%s_noctx_%s" % (m["handle"], m["payload"]))
        if hb is None:
            continue
        for mk in ("send", "sync"):
            added = p[mk] and not hb[mk]
            ck.ob("M-wrapper", "wrapper-adds/%s/%s" % (m["wrapper"], mk.capitalize()) if added else "wrap/%s/%s" % (n, mk), not added,
                  "%s is %s although its instance handle %s is not" % (p["ty"], mk.capitalize(), hb["ty"]))
    # construction cells: smart pointer vs the std handle it wraps
    for h, std in REF_ROWS.items():
        for pl in ("PSS", "PSn", "PnS", "Pnn"):
            sp = probes.get("SS_bare_%s_noctx_%s" % (h, pl))
            rf = probes.get("RF_%s_%s" % (std, pl))
            if not ck.require(sp is not None and rf is not None, "reference row for %s/%s" % (h, pl)):
                continue
            for mk in ("send", "sync"):
                added = sp[mk] and not rf[mk]
                ck.ob("M-construct", "construct-adds/%s/%s" % (h, mk.capitalize()) if added else "construct/%s/%s/%s" % (h, pl, mk), not added,
                      "%s is %s although the handle it is built from (%s) is not" % (sp["ty"], mk.capitalize(), rf["ty"]),
                      sample={"smart": sp["ty"], "std": rf["ty"], mk: [sp[mk], rf[mk]]})
    for pl in ("PSS", "PSn", "PnS", "Pnn"):
        sp, rf = probes.get("RF_cvec_%s" % pl), probes.get("RF_vec_%s" % pl)
        if sp and rf:
            for mk in ("send", "sync"):
                added = sp[mk] and not rf[mk]
                ck.ob("M-construct", "construct-adds/cvec/%s" % mk.capitalize() if added else "construct/cvec/%s/%s" % (pl, mk), not added,
                      "%s is %s although Vec of the same element type is not" % (sp["ty"], mk.capitalize()))
    # fail closed: every Opaquable impl (library + generated) has at least one evaluated row that uses it
    cl = facts.cfg_cglue(features="task,futures")
    ck.unit("cglue lib impls")
    lib_impls = [im for im in cl.impls("cglue-lib") if im.get("trait") == "cglue::trait_group::Opaquable"]
    ck.floor("Opaquable impls in cglue", len(lib_impls), 12)
    def row_exists(im):
        st = im["self_ty"]
        adt = im.get("self_adt")
        for n, p in probes.items():
            if not p.get("opaquable"):
                continue
            sh = p.get("shape", {})
            if adt and sh.get("path") == adt:
                return True
            if not adt:
                if st.startswith("&'a mut") and sh.get("k") == "ref" and sh.get("mut"):
                    return True
                if st.startswith("&'a T") and sh.get("k") == "ref" and not sh.get("mut"):
                    return True
                if st == "()" and p["ty"] == "()":
                    return True
        return False
    for im in lib_impls + [im for im in cf.impls() if im.get("trait") == "cglue::trait_group::Opaquable"]:
        ck.ob("M-row-coverage", "impl/" + im["self_ty"], row_exists(im),
              "Opaquable impl for %s (%s) has no row in the Send/Sync matrix" % (im["self_ty"], im["span"]))
    ck.floor("opaquable matrix cells", n_opq, 300)
    if tier == "thorough":
        # independent cross-check by real compilation: must-not-compile programs with compiling twins
        res, log = corpus.run_witnesses()
        ck.unit("witness crate (cargo +nightly test --doc): %d doc-tests" % len(res))
        ck.floor("compile-fail witnesses and twins", len(res), 16)
        for name, kind, ok in sorted(res):
            if kind == "compile fail":
                ck.ob("W-must-not-compile", "witness/%s" % name, ok, "witness %s compiles (or fails with a different error than E0277): a program that must be rejected is accepted" % name,
                      sample={"witness": name, "verdict": "rejected with E0277"})
            else:
                ck.ob("W-twin-compiles", "witness/%s-twin" % name, ok, "the compiling twin of witness %s no longer compiles: the witness is vacuous" % name)
    ck.extra["matrix"] = {"probes": len(meta), "opaquable_rows": n_opq, "rows_per_handle": rows_per_handle}
    return ck.finish(
        "rustc's trait solver decides Send/Sync of source and normalised OpaqueTarget for every (wrapper x handle x context x payload) "
        "cell, payloads covering {Send,!Send}x{Sync,!Sync}; violation iff the target has a marker the source lacks. Every Opaquable "
        "impl in cglue and in generated code must own at least one row. Smart pointers are also compared with the std handle they wrap.",
        rule_text="cell = (probe alias, marker); key of a violating cell = leaf handle kind + marker",
        trusted=["rustc nightly 1.97 trait solver (type_implements_trait, normalize_erasing_regions)"],
        exhaustive=True)
