"""C10 -- CArc / CArcSome behave as Arc / Option<Arc> (per-operation ledger rules; histories are derived, not enumerated).

Each handle owns exactly one strong reference: constructors leak one (`Arc::into_raw`) and store the paired reclaimers; Clone reaches
the count only through the stored clone function and copies both function pointers; Drop only through the stored drop function when
Some; every conversion that builds a handle from another handle's fields disarms the source (`take`) on all paths; the empty state
clones to empty and drops as a no-op; the CArc<->CArcSome reinterpretation is guarded by the `instance.is_none()` test and the two
types have identical compiler-computed layout; Send/Sync bounds equal Arc's and all shared state lives inside std's Arc.
"""
from lib import corpus, facts, mir, report, ledger, forward
from rules import c06, c04

ARC = "cglue::arc::"


def _field(v, idx, name):
    """Field of a summarised struct value: a literal, a symbolic struct, or a symbolic struct with some fields overwritten."""
    from lib import sem
    v = sem.strip(v)
    if v[0] == "agg" and idx < len(v[4]):
        return sem.strip(v[4][idx])
    if v[0] == "upd":
        for pp, val in v[2]:
            if len(pp) == 1 and pp[0][0] == "f" and pp[0][1] == idx:
                return sem.strip(val)
        return ("fld", sem.strip(v[1]), idx, name)
    return ("fld", v, idx, name)


def sem_source_disarmed(fn, allf, adts):
    """Semantic form of L5 for a conversion that takes a CArc by value: on every path that hands the source's pointer to the new handle,
    the source value, when it is finally dropped, has `instance == None` (Drop for CArc is then a no-op) or is not dropped at all."""
    from lib import sem
    ev = sem.Evaluator(allf, adts, inline=lambda p: p.startswith(("cglue::", "<cglue::")) and "as std::ops::Drop>" not in p)
    src = ("sym", "src")
    for i, nm in enumerate(("instance", "clone_fn", "drop_fn")):
        ev.hint(("fld", src, i, nm), "std::option::Option")
    outs = ev.run(fn, [src])
    if not outs or any(o.kind == "stuck" for o in outs):
        return None
    for o in outs:
        if o.kind != "ret":
            continue
        shares = sem.contains(o.ret, lambda x: x[0] == "pay" and x[1] == ("fld", src, 0, "instance"))
        if not shares:
            continue
        for e in o.effects:
            if e[0] == "drop" and sem.contains(e[1], lambda x: x == src) and "CArc<" in (e[2] or ""):
                inst = _field(e[1], 0, "instance")
                inst = o.state.refined.get(inst, inst)
                if sem.variant_of(inst) != "None":
                    return False
    return True


def check_all(ck, tier):
    f = facts.cfg_cglue()
    ck.unit("cglue lib: arc.rs")

    def extra_ok(fn, sites, ns):
        # c_clone: {-1 on Some, 0 on None}; c_drop: {+1 on Some, 0 on None}; CArc::drop: {+1 via drop_in_place on Some, 0}
        p = fn["path"]
        key = "cglue/" + p
        body = mir.Body(fn)
        if p == ARC + "c_clone":
            # one strong reference is added for Some(p), nothing happens for None.  Accepted ways of adding it:
            #   borrow the Arc (from_raw), clone it, neutralise the borrowed owner (into_raw / ManuallyDrop::new / forget) and leak the clone;
            #   or Arc::increment_strong_count(p).
            some_b, payloads = mir.some_region(body, 1)
            ok = ns == {-1, 0} and bool(some_b) and all(s.bb in some_b for s in sites)

            class _P:      # `x == payload` for any of the spellings of the Some payload
                def __eq__(self, other):
                    return other in payloads
                __hash__ = None
            payload = _P()
            incs = [s for s in sites if s.kind == "increment_strong_count"]
            frs = [s for s in sites if s.kind == "arc_from_raw"]
            ret = body.origin_local(0)
            if ok and incs:
                ok = len(sites) == 1 and payload == mir.peel(body.origin_operand(incs[0].term["args"][0])) and not body.in_cycle(incs[0].bb) \
                    and mir.contains(ret, lambda x: payload == mir.peel(x) or x == ("arg", 1))
            elif ok:
                ok = len(frs) == 1 and payload == mir.peel(body.origin_operand(frs[0].term["args"][0]))

                def is_borrowed(o):
                    o = mir.peel(o)
                    return o[0] == "call" and o[1].endswith("Arc::<T>::from_raw") and len(o) > 3 and o[3] == frs[0].bb
                if ok:
                    neutral = [s for s in sites if s.kind in ("arc_into_raw", "manuallydrop_new", "forget") and is_borrowed(body.origin_operand(s.term["args"][0]))]
                    clones = [(i, t) for i, t in body.calls() if (mir.callee_path(t) or "") == "std::clone::Clone::clone" and is_borrowed(body.origin_operand(t["args"][0]))]
                    ok = len(neutral) == 1 and len(clones) == 1 and not body.in_cycle(clones[0][0])
                if ok:
                    def is_clone(o):
                        o = mir.peel(o, through_manuallydrop=False)
                        return o[0] == "call" and o[1] == "std::clone::Clone::clone" and len(o) > 3 and o[3] == clones[0][0]
                    leaks = [s for s in sites if s.kind == "arc_into_raw" and is_clone(body.origin_operand(s.term["args"][0]))]
                    ok = len(leaks) == 1 and len(sites) == 3 and mir.contains(ret, lambda x: x[0] == "call" and x[1].endswith("Arc::<T>::into_raw") and len(x) > 3 and x[3] == leaks[0].bb)
            ck.ob("A-clone-fn-adds-one-reference", key, ok, "c_clone must add exactly one strong reference for Some(p) (borrow the Arc, clone it once, neutralise the borrowed owner and leak "
                  "the clone whose pointer is returned; or increment_strong_count(p)) and do nothing for None", sample={"fn": p, "sites": [repr(s) for s in sites]})
            return True
        if p == ARC + "c_drop":
            ok = ns == {0, 1} and [s.kind for s in sites] == ["arc_from_raw"]
            if ok:
                ok = sites[0].bb in mir.some_region(body, 1)[0]
            ck.ob("A-drop-fn-releases-one-reference", key, ok, "c_drop must rebuild and drop exactly one Arc, only for Some(p)", sample={"fn": p})
            return True
        if fn.get("impl_trait") == "std::ops::Drop" and fn.get("impl_self_adt") == ARC + "CArc":
            ok = ns == {0, 1} and [s.kind for s in sites] == ["drop_in_place"]
            if ok:
                a = forward.leafify(body.origin_operand(sites[0].term["args"][0]))
                ok = a[0] == "field" and a[1][0] == "downcast" and a[1][2] == "Some" and a[1][1][0] == "call" and a[1][1][1] == "std::convert::From::from" \
                    and forward.leafify(a[1][1][2][0]) == ("arg", 1)
            ck.ob("A-carc-drop-delegates-to-some", key, ok, "Drop for CArc must drop the CArcSome view of itself exactly when it is non-empty")
            return True
        if fn.get("impl_trait") == "std::clone::Clone" and fn.get("impl_self_adt") == ARC + "CArcSome":
            return ns == {-1} and [s.kind for s in sites] == ["slot:clone_fn"]     # shape checked by B-clone-through-stored-fn
        if [s.kind for s in sites] == ["manuallydrop_new"] and body.origin_operand(sites[0].term["args"][0]) == ("arg", 1) and fn["inputs"] and fn["inputs"][0].startswith((ARC + "CArc<", ARC + "CArcSome<")):
            # a hand-over: the source handle is disarmed as a whole (ManuallyDrop) and its pointer and functions move into the new handle
            moved = False
            for i in sorted(body.live_blocks()):
                for s_ in body.blocks[i]["s"]:
                    if s_["k"] == "assign" and s_["r"]["k"] == "agg" and s_["r"].get("adt") in (ARC + "CArc", ARC + "CArcSome"):
                        ops = dict(zip(s_["r"]["fields"], [body.origin_operand(o) for o in s_["r"]["ops"]]))
                        moved = all(mir.contains(ops[k], lambda x: mir.peel_place(x)[0] == "field" and mir.peel_place(x)[-1] == k and mir.peel(mir.peel_place(x)[1]) == ("arg", 1))
                                    for k in ("instance", "drop_fn"))
            ck.ob("L5-transfer-disarms-source", key + "/whole-source", moved, "%s wraps its source handle in ManuallyDrop but does not move the source's own instance and drop_fn into the handle it builds" % p)
            return True
        return False

    n_sites, summ = c06.classify_library(ck, f, "cglue-lib", ("/arc.rs",), "cglue", extra_ok=extra_ok)
    ck.floor("ownership primitive sites in arc.rs", n_sites, 9)
    fns = {x["path"]: x for x in f.fns("cglue-lib") if "/arc.rs" in x["span"]}
    # the constructors store both reclaimers, instantiated at their own T
    n_ctor = 0
    for p, fn in fns.items():
        body = mir.Body(fn)
        for adt, flds in c06.slot_fn_in_aggregate(body).items():
            if adt in (ARC + "CArc", ARC + "CArcSome") and ("clone_fn" in flds or "drop_fn" in flds):
                n_ctor += 1
                ok = flds.get("clone_fn", (None,))[0] == ARC + "c_clone" and flds.get("drop_fn", (None,))[0] == ARC + "c_drop" \
                    and flds["clone_fn"][1] == ("T",) and flds["drop_fn"][1] == ("T",)
                ck.ob("A-constructor-stores-both-fns", "cglue/" + p, ok, "%s must store c_clone::<T> and c_drop::<T> next to the pointer: %s" % (p, flds), sample={"fn": p})
    ck.floor("arc constructors", n_ctor, 1)
    # G-derived-handle-keeps-stored-fns: a handle made from a handle (conversions, transposes, opaque casts, take) carries the *source's*
    # clone/drop functions -- those of the module that created the allocation.  Such a function must therefore never reach a fresh
    # constructor (one that stores this module's c_clone/c_drop) nor leave the handle world through `into_arc`/`Arc::from_raw`.
    from lib import callgraph
    fresh = set()
    for p, fn in fns.items():
        for adt, flds in c06.slot_fn_in_aggregate(mir.Body(fn)).items():
            if adt in (ARC + "CArc", ARC + "CArcSome") and ("clone_fn" in flds or "drop_fn" in flds):
                fresh.add(p)
    exits = {p for p, fn in fns.items() if fn["name"] == "into_arc" or any((mir.callee_path(t) or "").endswith("Arc::<T>::from_raw") or (mir.callee_path(t) or "").endswith("Arc::<T, A>::from_raw")
                                                                           for _, t in mir.Body(fn).calls())}
    # precise edges: the resolved callee of every call (Into::into through the From impl it forwards to), function items passed as values
    def callees(fn):
        out = set()
        for body in mir.bodies(fn):
            for _, t in body.calls():
                c = t.get("callee") or {}
                for q in (c.get("path"), (c.get("res") or {}).get("path"), (c.get("via_from") or {}).get("path")):
                    if q:
                        out.add(q)
        cs = []
        callgraph._walk_consts(fn["body"], cs)
        for c in cs:
            out.add(c["path"])
            if c.get("res"):
                out.add(c["res"]["path"])
        return out

    class _G:
        def reachable(self, roots):
            seen, st = set(), list(roots)
            while st:
                x = st.pop()
                if x in seen or x not in fns:
                    continue
                seen.add(x)
                st.extend(callees(fns[x]))
                st.extend(q for q in fns if q.startswith(x + "::{closure"))
            return seen
    cg = _G()
    is_handle = lambda t: "cglue::arc::CArc<" in t or "cglue::arc::CArcSome<" in t
    n_derived = 0
    for p, fn in sorted(fns.items()):
        if p in fresh or p in exits or "::{closure" in p or p in (ARC + "c_clone", ARC + "c_drop"):
            continue
        if not (any(is_handle(t) for t in fn.get("inputs", [])) and is_handle(fn.get("output") or "")):
            continue
        n_derived += 1
        reach = cg.reachable([p]) - {p}
        bad = sorted(reach & (fresh | exits))
        ck.ob("G-derived-handle-keeps-stored-fns", "cglue/" + p, not bad,
              "%s (%s) makes a handle from a handle but goes through %s: the new handle gets this module's clone/drop functions instead of the ones "
              "stored by the module that created the allocation" % (p, fn["span"], bad), sample={"fn": p})
    ck.floor("handle-to-handle functions", n_derived, 6)
    # Clone for CArcSome: instance from the clone slot called with Some(self.instance); both fn pointers copied from self
    cl = fns.get("<cglue::arc::CArcSome<T> as std::clone::Clone>::clone")
    if ck.require(cl is not None, "Clone for CArcSome"):
        body = mir.Body(cl)
        ret = mir.deepstrip(body.origin_local(0))
        ok = ret[0] == "agg" and ret[1] == ARC + "CArcSome"
        if ok:
            ops = dict(zip(ret[3], ret[4]))
            inst = ops["instance"]
            ok = inst[0] == "call" and inst[1].endswith("Option::<T>::unwrap") and inst[2][0][0] == "icall"
            if ok:
                ic = inst[2][0]
                fo = forward.leafify(ic[1])
                arg = ic[2][0]
                ok = fo == ("field", ("arg", 1), "clone_fn") and arg[0] == "agg" and arg[2] == "Some" and forward.leafify(arg[4][0]) == ("field", ("arg", 1), "instance")
            ok = ok and forward.leafify(ops["clone_fn"]) == ("field", ("arg", 1), "clone_fn") and forward.leafify(ops["drop_fn"]) == ("field", ("arg", 1), "drop_fn")
        ck.ob("B-clone-through-stored-fn", "cglue/CArcSome::clone", ok, "CArcSome::clone must obtain the new pointer from its own clone_fn(Some(instance)) and copy both function pointers: %s" % mir.fmt(ret)[:200])
    # L5: handles built from another handle's fields take the drop function out of the source
    n_tr = 0
    for p, fn in fns.items():
        body = mir.Body(fn)
        for i in sorted(body.live_blocks()):
            for s in body.blocks[i]["s"]:
                if s["k"] != "assign" or s["r"]["k"] != "agg" or s["r"].get("adt") not in (ARC + "CArc", ARC + "CArcSome"):
                    continue
                ops = dict(zip(s["r"]["fields"], [body.origin_operand(o) for o in s["r"]["ops"]]))
                d = ops["drop_fn"]
                if d[0] == "agg" and d[2] in ("Some", "None") and (not d[4] or forward.leafify(d[4][0])[0] in ("fnconst", "cast")):
                    continue    # fresh constructor / empty state
                if p.endswith("Clone>::clone"):
                    continue    # checked above: instance is a new strong reference
                n_tr += 1
                dl = forward.leafify(d)
                took = dl[0] == "call" and dl[1].endswith("Option::<T>::take")
                from_taken_value = mir.contains(d, lambda o: o[0] == "call" and o[1] == ARC + "CArc::<T>::take")
                if not (took or from_taken_value) and fn["inputs"] and fn["inputs"][0].startswith(ARC + "CArc<"):
                    allf = {x["path"]: x for x in f.fns("cglue-lib")}
                    took = sem_source_disarmed(fn, allf, {a["path"]: a for a in f.adts("cglue-lib")}) is True
                ck.ob("L5-transfer-disarms-source", "cglue/%s/%s" % (p, s["r"]["adt"].split("::")[-1]), took or from_taken_value,
                      "%s builds a handle whose drop_fn is %s: the source keeps its own drop function and both will release the reference" % (p, mir.fmt(d)[:160]),
                      sample={"fn": p, "drop_fn": mir.fmt(d)[:100]})
    ck.floor("handle-to-handle transfers", n_tr, 2)
    # L5b: a new handle whose `instance` is copied out of another handle value X (not obtained by Option::take and not a fresh
    # clone) shares X's strong reference: X must be disarmed (its drop_fn/instance taken, or X forgotten) before X is dropped.
    HANDLE_TYS = ("cglue::arc::CArc<", "cglue::arc::CArcSome<")
    n_cp = 0
    for p, fn in fns.items():
        body = mir.Body(fn)
        takes = []
        forgets = []
        for _, t in body.calls():
            cp_ = mir.callee_path(t) or ""
            if cp_.endswith("Option::<T>::take"):
                takes.append(mir.erase_callsites(mir.deepstrip(body.origin_operand(t["args"][0]))))
            if cp_ == "std::mem::forget":
                forgets.append(mir.erase_callsites(mir.deepstrip(body.origin_operand(t["args"][0]))))
        for i in sorted(body.live_blocks()):
            for s in body.blocks[i]["s"]:
                if s["k"] != "assign" or s["r"]["k"] != "agg" or s["r"].get("adt") not in (ARC + "CArc", ARC + "CArcSome"):
                    continue
                ops = dict(zip(s["r"]["fields"], [body.origin_operand(o) for o in s["r"]["ops"]]))
                inst = mir.deepstrip(ops["instance"])
                if inst[0] == "agg" and inst[2] == "Some" and inst[4]:
                    inst = mir.deepstrip(inst[4][0])
                if inst[0] == "field" and inst[2] == "0" and inst[1][0] == "downcast":
                    inst = mir.deepstrip(inst[1][1])
                if not (inst[0] == "field" and inst[2] == "instance"):
                    continue
                X = inst[1]
                # the type of X: a handle held by value (a reference parameter is only borrowed)
                xty = None
                if X[0] == "arg":
                    xty = body.locals[X[1]]["ty"]
                elif X[0] == "call":
                    for _, t in body.calls():
                        if mir.callee_path(t) == X[1]:
                            xty = t.get("dty")
                elif X[0] == "field" and X[1][0] == "downcast":
                    xty = "cglue::arc::CArcSome<"     # payload of Option<CArcSome>
                if xty is None or xty.startswith("&") or not any(h in xty for h in HANDLE_TYS):
                    continue
                n_cp += 1
                Xe = mir.erase_callsites(X)
                disarmed = any(tk == ("field", Xe, "drop_fn") or tk == ("field", Xe, "instance") for tk in takes) or Xe in forgets
                ck.ob("L5-copied-instance-source-disarmed", "cglue/%s/%s" % (p, s["r"]["adt"].split("::")[-1]), disarmed,
                      "%s copies `instance` out of the handle value %s into a new %s but never takes that value's drop_fn/instance nor forgets it: "
                      "when the source is dropped it releases the same strong reference the new handle will release again"
                      % (p, mir.fmt(X)[:100], s["r"]["adt"].split("::")[-1]), sample={"fn": p, "source": mir.fmt(X)[:80]})
    ck.floor("instance copies between handle values", n_cp, 1)
    # take(): all three fields are taken
    tk = fns.get(ARC + "CArc::<T>::take")
    if ck.require(tk is not None, "CArc::take"):
        ret = mir.deepstrip(mir.Body(tk).origin_local(0))
        ok = ret[0] == "agg" and all(o[0] == "call" and o[1].endswith("Option::<T>::take") and forward.leafify(o[2][0]) == ("field", ("arg", 1), n) for n, o in zip(ret[3], ret[4]))
        if not ok:
            # semantic form: afterwards `*self` is the empty value and what is returned is exactly what `*self` held (mem::take, mem::replace ...)
            from lib import sem
            allf = {x["path"]: x for x in f.fns("cglue-lib")}
            ev = sem.Evaluator(allf, {}, inline=lambda p: p.startswith(("cglue::", "<cglue::")))
            me = ("sym", "self")
            outs = ev.run(tk, [me])
            if len(outs) == 1 and outs[0].kind == "ret":
                o = outs[0]
                after = ev._read(o.state, ("ext", me), ())
                a = sem.strip(after)
                r = sem.strip(o.ret)
                names = ("instance", "clone_fn", "drop_fn")
                emptied = a[0] == "agg" and len(a[4]) == 3 and all(sem.variant_of(x) == "None" for x in a[4])
                old = r == me or (r[0] == "agg" and len(r[4]) == 3 and all(sem.strip(x) == ("fld", me, i, n) for i, (n, x) in enumerate(zip(names, r[4]))))
                ok = emptied and old and not [e for e in o.effects if e[0] in ("call", "icall", "drop")]
        ck.ob("L5-take-empties-source", "cglue/CArc::take", ok, "CArc::take must Option::take each of its three fields: %s" % mir.fmt(ret)[:200])
    # into_arc: pointer read before forgetting self; net 0 already classified
    ia = fns.get(ARC + "CArcSome::<T>::into_arc")
    if ck.require(ia is not None, "CArcSome::into_arc"):
        body = mir.Body(ia)
        ret = body.origin_local(0)
        src = ret[2][0] if ret[0] == "call" else ("?",)
        while src[0] == "cast":
            src = forward.leafify(src[2])
        ck.ob("L5-into-arc-uses-own-pointer", "cglue/into_arc", ret[0] == "call" and ret[1].endswith("Arc::<T>::from_raw") and mir.peel_place(src) == ("field", ("arg", 1), "instance") and ia.get("unsafe"),
              "into_arc must rebuild the Arc from its own instance and be an unsafe fn")
    # reinterpretation guarded by is_none
    n_g = 0
    for p, fn in fns.items():
        body = mir.Body(fn)
        for i in sorted(body.live_blocks()):
            for s in body.blocks[i]["s"]:
                pass
        casts = [(i, t) for i, t in body.calls() if (mir.callee_path(t) or "").endswith("::cast") and "CArcSome" in " ".join((t.get("callee") or {}).get("args", []))]
        for i, t in casts:
            n_g += 1
            sws = [s for s in mir.discr_switches(body) if s[1][0] == "call" and s[1][1].endswith("Option::<T>::is_none")]
            ok = len(sws) == 1
            if ok:
                sw = sws[0]
                recv = forward.leafify(sw[1][2][0])
                false_b = mir.dominated(body, sw[2].get(0)) if 0 in sw[2] else set()
                ok = recv[0] == "field" and recv[2] == "instance" and forward.leafify(recv[1]) == ("arg", 1) and i in false_b
                src = forward.leafify(body.origin_operand(t["args"][0]))
                while src[0] == "cast":
                    src = forward.leafify(src[2])
                ok = ok and src == ("arg", 1)
            if not ok and "::{closure" in p:
                # the reinterpretation sits in a closure handed to `self.instance.and_then(..)` / `.map(..)`: it only runs for Some
                parent = fns.get(p.split("::{closure")[0])
                if parent is not None:
                    pb = mir.Body(parent)
                    guards = [(bi, tt) for bi, tt in pb.calls() if (mir.callee_path(tt) or "").endswith(("Option::<T>::and_then", "Option::<T>::map"))]
                    ok2 = len(guards) == 1
                    if ok2:
                        recv = mir.peel_place(forward.leafify(pb.origin_operand(guards[0][1]["args"][0])))
                        ok2 = recv[0] == "field" and recv[2] == "instance" and mir.peel_place(forward.leafify(recv[1])) == ("arg", 1)
                        clo = forward.leafify(pb.origin_operand(guards[0][1]["args"][1]))
                        ok2 = ok2 and clo[0] == "agg" and clo[1] in (p, "closure:" + p)
                        if ok2:
                            def bare(x):
                                x = forward.leafify(x)
                                while x[0] in ("ref", "deref"):
                                    x = forward.leafify(x[1])
                                return x
                            caps = [bare(x) for x in clo[4]]
                            src = forward.leafify(body.origin_operand(t["args"][0]))
                            while src[0] == "cast":
                                src = forward.leafify(src[2])
                            src = mir.peel_place(src)
                            # the pointer reinterpreted is a capture of the closure, and that capture is the parent's own argument
                            ok2 = src[0] == "field" and mir.peel_place(forward.leafify(src[1])) == ("arg", 1) and str(src[2]).isdigit() \
                                and int(src[2]) < len(caps) and caps[int(src[2])] == ("arg", 1)
                    ok = ok2
            ck.ob("G-reinterpret-only-when-some", "cglue/" + p, ok, "%s reinterprets a CArc as CArcSome without being dominated by the `instance.is_none() == false` arm" % p, sample={"fn": p})
    ck.floor("CArc->CArcSome reinterpretations", n_g, 2)
    # empty state
    cc = fns.get("<cglue::arc::CArc<T> as std::clone::Clone>::clone")
    df = fns.get("<cglue::arc::CArc<T> as std::default::Default>::default")
    if ck.require(cc is not None and df is not None, "Clone/Default for CArc"):
        # semantic form: run Clone::clone on a CArc whose instance is None; on every path the result must be the empty value and nothing
        # may be called (in particular no stored function)
        from lib import sem
        allf = {x["path"]: x for x in f.fns("cglue-lib")}
        ev = sem.Evaluator(allf, {a["path"]: a for a in f.adts("cglue-lib")}, inline=lambda p: p.startswith(("cglue::", "<cglue::")) or "::{closure" in p)
        me = ("sym", "self")
        none = ("agg", "adt", "std::option::Option", "None", ())
        empty = ("agg", "adt", ARC + "CArc", "CArc", (none, ("sym", "clone_fn"), ("sym", "drop_fn")))
        outs = ev.run(cc, [me], init=[(("ext", me), (), empty)])
        ok = bool(outs) and all(o.kind == "ret" for o in outs)
        for o in outs:
            r = sem.strip(o.ret) if o.kind == "ret" else ("?",)
            ok = ok and r[0] == "agg" and r[2] == ARC + "CArc" and all(sem.variant_of(x) == "None" for x in r[4]) \
                and not [e for e in o.effects if e[0] in ("call", "icall")]
        ck.ob("E-empty-clones-to-empty", "cglue/CArc::clone", ok, "cloning an empty CArc must yield Default (empty)")
        ret = mir.Body(df).origin_local(0)
        ck.ob("E-default-is-all-none", "cglue/CArc::default", ret[0] == "agg" and all(o[0] == "agg" and o[2] == "None" for o in ret[4]), "CArc::default must set instance, clone_fn and drop_fn to None")
    # same value for every handle
    for p in ("<cglue::arc::CArcSome<T> as std::ops::Deref>::deref", "<cglue::arc::CArcSome<T> as std::convert::AsRef<T>>::as_ref"):
        fn = fns.get(p)
        if ck.require(fn is not None, p):
            o = mir.deepstrip(mir.Body(fn).origin_local(0))
            ck.ob("V-deref-is-instance", "cglue/" + p, o == ("field", ("arg", 1), "instance"), "%s does not return its own instance" % p)
    # Send/Sync bounds equal Arc's (T: Send + Sync for both), no other shared state
    for im in f.impls("cglue-lib"):
        if im.get("self_adt") in (ARC + "CArc", ARC + "CArcSome") and im.get("trait") in ("std::marker::Send", "std::marker::Sync"):
            preds = set(im["preds"])
            ck.ob("T-auto-trait-bounds-equal-arc", "cglue/%s/%s" % (im["self_adt"], im["trait"]), {"T: std::marker::Send", "T: std::marker::Sync"} <= preds,
                  "unsafe impl %s for %s has bounds %s; Arc requires T: Send + Sync" % (im["trait"], im["self_adt"], sorted(preds)), sample={"impl": im["path"]})
    for a in f.adts("cglue-lib"):
        if a["path"] in (ARC + "CArc", ARC + "CArcSome"):
            bad = [fl["ty"] for v in a["variants"] for fl in v["fields"] if "UnsafeCell" in fl["ty"] or "Atomic" in fl["ty"] or "Cell<" in fl["ty"]]
            ck.ob("T-no-own-shared-state", "cglue/" + a["path"], not bad, "%s has interior-mutable fields %s; all shared state must live in std's Arc" % (a["path"], bad))
    # layouts
    cf = corpus.corpus_facts(tier)
    probes = {p["name"]: p for p in cf.probes()}
    for a, b in (("LY_CArc_u64", "LY_CArcSome_u64"), ("LY_CArc_void", "LY_CArcSome_void")):
        if ck.require(a in probes and b in probes, "layout probes %s/%s" % (a, b)):
            r = c04.same_layout(probes[a]["shape"], probes[b]["shape"])
            ck.ob("G-same-layout", a, r is None, "CArc and CArcSome layouts differ: %s" % r)


def run(tier):
    ck = report.Check("C10", tier, level="other")
    check_all(ck, tier)
    return ck.finish(
        "ledger classification of every ownership-bypassing site in arc.rs (constructors leak one reference and store c_clone/c_drop at their own T; "
        "c_clone adds exactly one, c_drop releases exactly one, only for Some), Clone/Drop reach the count only through the stored functions, every "
        "handle-to-handle transfer takes the drop function out of its source, reinterpretation is dominated by the non-empty test, compiler layouts equal, "
        "auto-trait bounds equal Arc's. `strong count == live handles over all histories and schedules` is derived from these per-operation facts, not enumerated.",
        rule_text="obligation = one (function, rule)",
        trusted=["std::sync::Arc is a correct atomic reference count", "safe code cannot duplicate a handle"])
