"""C04 -- generated C layout is a fixed, order-preserving function of the definitions.

(a) vtable = one extern "C" fn pointer per exported method, declaration order;  (b) group field order (mandatory by name,
optional by name, container; container = instance, context, ret_tmp_*);  (c) opaque and concrete forms have identical
compiler-computed layout;  (d) no hash-order / environment nondeterminism reachable from the layout-defining macros;
(e) checked-in header agrees with plugin-api.
"""
import re
from lib import corpus, facts, mir, model, report, callgraph

LAYOUT_MACROS = ["cglue_macro::cglue_trait", "cglue_macro::cglue_trait_ext", "cglue_macro::cglue_trait_group"]
# proc-macro entry points that define no layout; hash-ordered iteration reachable from them is reported as information
NON_LAYOUT_REASON = {
    "cglue_macro::cglue_builtin_ext_traits": "ext::impl_store/impl_inner/impl_mod order `pub mod` and `pub use` items only; every vtable inside is emitted by a nested cglue_trait_ext expansion",
    "cglue_macro::cglue_builtin_ext_forward": "ext::impl_ext_forward orders forward impl blocks only",
    "cglue_macro::cglue_impl_group": "ParsedGenerics::extract_lifetimes orders the lifetimes of an impl header; cglue_impl_group! defines no struct",
}


def is_opt(ty):
    return ty.startswith("std::option::Option<") or ty.startswith("core::option::Option<")


def vtbl_raw_ident(ty):
    m = re.search(r"(\w+)Vtbl<", ty)
    return m.group(1) if m else None


def check_vtables(ck, m, label, expected):
    """expected: {(trait name) -> [slots]} exact lists where known."""
    n = 0
    for g in m.gen_traits:
        if "::ffi_controls::" in g.vtbl_path:
            continue
        fields = model.adt_fields(g.vtbl)
        fn_fields = [(nm, f) for nm, f in fields if not model.is_phantom(f)]
        names = [nm for nm, _ in fn_fields]
        key = "%s/%s" % (label, g.vtbl_path)
        n += 1
        # every non-phantom field is a function pointer; phantom fields come last
        allfn = all(f["shape"].get("k") == "fnptr" for _, f in fn_fields)
        ck.ob("A-only-fnptr", key, allfn, "vtable %s has a non-function, non-PhantomData field: %s" % (g.vtbl_path, [(nm, f["ty"]) for nm, f in fn_fields if f["shape"].get("k") != "fnptr"]))
        idx_ph = [i for i, (nm, f) in enumerate(fields) if model.is_phantom(f)]
        ck.ob("A-phantom-last", key, not idx_ph or min(idx_ph) >= len(fn_fields), "vtable %s interleaves PhantomData with slots" % g.vtbl_path)
        ck.ob("A-no-dup", key, len(set(names)) == len(names), "vtable %s has duplicate slots" % g.vtbl_path)
        tname = (g.trait_path or "").split("::")[-1]
        if tname in expected and (g.trait_path or "").startswith(expected[tname][0]):
            want = expected[tname][1]
            ck.ob("A-slots-exact", key, names == want, "vtable %s slots are %s; the trait exports %s in this order" % (g.vtbl_path, names, want),
                  sample={"vtable": g.vtbl["name"], "slots": names})
        if g.trait is not None:
            meths = [it for it in g.trait["items"] if it["kind"] == "fn"]
            order = [it["name"] for it in meths]
            pos = [order.index(nm) if nm in order else -1 for nm in names]
            ck.ob("A-decl-order", key, all(p >= 0 for p in pos) and pos == sorted(pos),
                  "vtable %s slots %s are not an order-preserving selection of the trait's methods %s" % (g.vtbl_path, names, order),
                  sample={"vtable": g.vtbl["name"], "slots": names, "trait_methods": order})
            # a method that must be exported: has a receiver, no default body, no type generics
            must = [it["name"] for it in meths if it.get("has_self") and not it["has_default"]
                    and not any(k != "lt" for _, k in it.get("generics", []))]
            missing = [x for x in must if x not in names]
            ck.ob("A-all-exported", key, not missing, "vtable %s lacks a slot for required method(s) %s" % (g.vtbl_path, missing))
        # slots wired one-to-one in the default table
        if g.default_fn is not None:
            ck.ob("A-default-covers", key, sorted(g.slots) == sorted(names), "Default for &%s initialises %s, struct has %s" % (g.vtbl["name"], sorted(g.slots), sorted(names)))
    return n


def check_groups(ck, m, label, expect_groups):
    n = 0
    for grp in m.groups:
        key = "%s/%s" % (label, grp.base["path"])
        n += 1
        bf = model.adt_fields(grp.base)
        names = [nm for nm, _ in bf]
        ck.ob("B-container-last", key, names and names[-1] == "container" and names.count("container") == 1,
              "group %s: `container` is not the single last field: %s" % (grp.name, names))
        vt = bf[:-1]
        mand = [(nm, f) for nm, f in vt if not is_opt(f["ty"])]
        opt = [(nm, f) for nm, f in vt if is_opt(f["ty"])]
        ck.ob("B-mand-then-opt", key, [nm for nm, _ in vt] == [nm for nm, _ in mand] + [nm for nm, _ in opt],
              "group %s interleaves mandatory and optional vtables: %s" % (grp.name, names))
        ck.ob("B-vtbl-types", key, all(f["shape"].get("k") == "ref" for _, f in mand) and all(nm.startswith("vtbl_") for nm, _ in vt),
              "group %s: vtable fields must be references named vtbl_*" % grp.name)
        eg = expect_groups.get(grp.name)
        if eg and grp.base["path"].startswith(eg["prefix"]):
            wm = ["vtbl_" + x.lower() for x in sorted(eg["mandatory"])]
            wo = ["vtbl_" + x.lower() for x in sorted(eg["optional"])]
            ck.ob("B-name-order-exact", key, [nm for nm, _ in mand] == wm and [nm for nm, _ in opt] == wo,
                  "group %s fields %s; expected mandatory %s then optional %s (sorted by trait/alias name)" % (grp.name, names, wm, wo),
                  sample={"group": grp.name, "fields": names})
        else:
            # repo groups: sort key is the trait identifier (alias when given); only un-aliased neighbours are compared
            for part in (mand, opt):
                ids = []
                for nm, f in part:
                    raw = vtbl_raw_ident(f["ty"])
                    ids.append(raw if raw and "vtbl_" + raw.lower() == nm else None)
                ok = all(a is None or b is None or a <= b for a, b in zip(ids, ids[1:]))
                ck.ob("B-name-order", key + ("/mand" if part is mand else "/opt"), ok,
                      "group %s vtables not in trait-name order: %s" % (grp.name, [nm for nm, _ in part]), sample={"group": grp.name, "order": [nm for nm, _ in part]})
        # Vtables, With and Final variants share the order
        base_v = [nm for nm, _ in vt]
        if ck.require(grp.vtables is not None, "Vtables struct of group %s" % grp.name):
            ck.ob("B-vtables-order", key, [nm for nm, _ in model.adt_fields(grp.vtables)] == base_v, "%sVtables order differs from the group" % grp.name)
        for wn, w in sorted(grp.withs.items()):
            wf = model.adt_fields(w)
            ck.ob("B-with-order", key + "/" + wn, [nm for nm, _ in wf] == names, "%s fields %s differ from group %s" % (wn, [nm for nm, _ in wf], names))
        for fnm, fa in sorted(grp.finals.items()):
            ff = [nm for nm, _ in model.adt_fields(fa)]
            sel = [nm for nm in names if nm in ff]
            ck.ob("B-final-order", key + "/" + fnm, ff == sel and ff[-1:] == ["container"] and all(nm in ff for nm, _ in mand),
                  "%s fields %s are not an order-preserving selection of %s keeping all mandatory vtables" % (fnm, ff, names))
        # container: instance, context, ret_tmp_* in the same trait order
        cf = [nm for nm, _ in model.adt_fields(grp.container)]
        want = ["instance", "context"] + ["ret_tmp_" + nm[len("vtbl_"):] for nm in base_v]
        ck.ob("B-container-fields", key, cf == want, "container %s fields %s, expected %s" % (grp.container["name"], cf, want),
              sample={"container": grp.container["name"], "fields": cf})
    return n


def same_layout(a, b):
    """Compare two monomorphic shapes: size, align, and field offsets (top level, per variant)."""
    if a.get("size") != b.get("size") or a.get("align") != b.get("align"):
        return "size/align %s/%s vs %s/%s" % (a.get("size"), a.get("align"), b.get("size"), b.get("align"))
    va, vb = a.get("variants"), b.get("variants")
    if va is None or vb is None:
        return None
    if len(va) != len(vb):
        return "variant count"
    for x, y in zip(va, vb):
        ox = [(f["name"], f.get("off"), f["shape"].get("size")) for f in x["fields"]]
        oy = [(f["name"], f.get("off"), f["shape"].get("size")) for f in y["fields"]]
        if ox != oy:
            return "fields %s vs %s" % (ox, oy)
    # one level down for struct fields (container inside object)
    for x, y in zip(va, vb):
        for fx, fy in zip(x["fields"], y["fields"]):
            if fx["shape"].get("variants") and fy["shape"].get("variants") and fx["shape"].get("k") == "struct":
                r = same_layout(fx["shape"], fy["shape"])
                if r:
                    return "%s: %s" % (fx["name"], r)
    return None


def run(tier):
    ck = report.Check("C04", tier, level="other")
    cf = corpus.corpus_facts(tier)
    exp = corpus.expect(tier)
    ck.unit("corpus-%s" % tier)
    expected = {}
    expect_groups = {}
    for it in exp["items"]:
        if it["kind"] == "single":
            expected[it["trait"]] = ("cgv_corpus::" + it["mod"] + "::", ["m"])
        elif it["kind"] == "fixed":
            expected[it["trait"]] = ("cgv_corpus::" + it["mod"] + "::", it["slots"])
        elif it["kind"] == "group":
            for v in it.get("vtables", []):
                expected[v["trait"]] = ("cgv_corpus::" + v["mod"] + "::", v["slots"])
            expect_groups[it["group"]] = {"prefix": "cgv_corpus::" + it["mod"] + "::", "mandatory": it["mandatory"], "optional": it["optional"]}
    m = model.Model(cf)
    nv = check_vtables(ck, m, "corpus", expected)
    ng = check_groups(ck, m, "corpus", expect_groups)
    ck.floor("corpus vtables", nv, 215 if tier == "quick" else 1300)
    ck.floor("corpus groups", ng, 5)
    ct = facts.cfg_cglue(tests=True)
    ck.unit("cglue --tests")
    m2 = model.Model(ct, "cglue-test")
    nv2 = check_vtables(ck, m2, "cglue-tests", {})
    ng2 = check_groups(ck, m2, "cglue-tests", {})
    ck.floor("cglue test vtables", nv2, 50)
    ck.floor("cglue test groups", ng2, 10)
    ex = facts.cfg_examples()
    ck.unit("examples")
    m3 = model.Model(ex)
    nv3 = check_vtables(ck, m3, "examples", {})
    ng3 = check_groups(ck, m3, "examples", {})
    ck.floor("example groups", ng3, 1)

    # ---- (c) opaque == concrete (compiler layouts) ----------------------------------------------
    n_l = 0
    probes = {p["name"]: p for p in cf.probes()}
    for n, p in sorted(probes.items()):
        if not p.get("opaquable") or "target" not in p:
            continue
        n_l += 1
        r = same_layout(p["shape"], p["target"]["shape"])
        ck.ob("C-opaque-layout", "probe/" + n, r is None, "layout of %s differs from its opaque form %s: %s" % (p["ty"], p["target"]["ty"], r),
              sample={"src": p["ty"][:120], "size": p["shape"].get("size"), "align": p["shape"].get("align")})
    ck.floor("opaque/concrete layout pairs", n_l, 300)
    for a, b in (("LY_CArc_u64", "LY_CArcSome_u64"), ("LY_CArc_void", "LY_CArcSome_void")):
        if ck.require(a in probes and b in probes, "probes %s/%s" % (a, b)):
            r = same_layout(probes[a]["shape"], probes[b]["shape"])
            ck.ob("C-arc-some-layout", a, r is None, "CArc and CArcSome layouts differ: %s" % r)
    for a, b in (("LY_Group", "LY_GroupWith"),):
        if ck.require(a in probes and b in probes, "probes %s/%s" % (a, b)):
            r = same_layout(probes[a]["shape"], probes[b]["shape"])
            ck.ob("C-with-layout", a, r is None, "group and With-variant layouts differ: %s" % r)
    # vtable size = n pointers for monomorphic object probes
    for n in ("LY_TraitObj", "LY_TraitObjArc", "LY_Group", "LY_GroupArc"):
        p = probes.get(n)
        if not p:
            continue
        for f in p["shape"]["variants"][0]["fields"]:
            sh = f["shape"]
            ts = sh.get("to_shape") if sh.get("k") == "ref" else None
            inner, _ = (sh, False)
            if sh.get("k") == "enum" and sh.get("variants") and len(sh["variants"]) == 2 and sh["variants"][1]["fields"]:
                ts = sh["variants"][1]["fields"][0]["shape"].get("to_shape")
            if ts and ts.get("path", "").endswith("Vtbl") and ts.get("variants"):
                nfn = len([x for x in ts["variants"][0]["fields"] if x["shape"].get("k") == "fnptr"])
                ck.ob("A-vtbl-size", "%s.%s" % (n, f["name"]), ts.get("size") == 8 * nfn, "vtable %s has size %s for %d slots" % (ts["path"], ts.get("size"), nfn))

    # ---- (d) reproducible expansion ------------------------------------------------------------
    gf = facts.cfg_gen()
    ck.unit("cglue-gen + cglue-macro call graph")
    cg = callgraph.CallGraph(gf.fns())
    sites = {}
    nd = {}
    for fn in gf.fns():
        s = [x for x in callgraph.hash_order_sites(fn) if not x["self"].lstrip("&").startswith(("std::collections::hash_map::", "std::collections::hash_set::"))]
        if s:
            # iterations whose order cannot be observed (collected into a set/map/sorted Vec, or reduced by any/all/count/min/max/sum)
            hb = mir.Body(fn)
            s = [x for x in s if not (x.get("bb") is not None and callgraph.order_free_sink(hb, x["bb"]))]
        if s:
            sites[fn["path"]] = (fn, s)
        x = callgraph.nondet_sites(fn)
        if x:
            nd[fn["path"]] = (fn, x)
    entries = [x["path"] for x in gf.fns("cglue_macro-proc-macro") if x["path"].count("::") == 1 and x["vis"].startswith("Public")]
    ck.floor("proc-macro entry points", len(entries), 25)
    for e in LAYOUT_MACROS:
        if not ck.require(e in entries, "layout-defining macro entry %s" % e):
            continue
        r = cg.reachable([e])
        ck.floor("functions reachable from %s" % e, len(r), 60)
        hits = [s for s in sites if s in r]
        ck.ob("D-no-hash-order", "gen/" + e, not hits,
              "hash-ordered iteration reachable from %s: %s" % (e, "; ".join("%s (%s) via %s" % (h, sites[h][0]["span"], " -> ".join(cg.path_to(h))) for h in hits)),
              sample={"entry": e, "reachable_fns": len(r), "hash_order_sites": 0})
        # the one accepted environment read decides between `::cglue` and `crate` as path prefix: it lives in util::crate_path_fixed or in
        # helpers reachable only through it
        gate = [q for q in cg.fns if q.endswith("util::crate_path_fixed")]
        r_wo = cg.reachable([e], avoid=set(gate))
        cg.reachable([e])      # restore parent links for path_to
        nh = [s for s in nd if s in r and not s.endswith("util::crate_path_fixed") and s in r_wo]
        ck.ob("D-no-nondet-source", "gen/" + e, not nh, "time/thread/env/fs nondeterminism reachable from %s: %s" % (e, nh))
    info = []
    for e in entries:
        if e in LAYOUT_MACROS:
            continue
        r = cg.reachable([e])
        hits = [s for s in sites if s in r]
        if hits:
            ck.ob("D-nonlayout-classified", "gen/" + e, e in NON_LAYOUT_REASON,
                  "macro %s reaches hash-ordered iteration (%s) and is not classified as defining no layout" % (e, hits))
            info.append({"entry": e, "sites": hits, "reason": NON_LAYOUT_REASON.get(e)})
    ck.extra["hash_order_sites_outside_layout_cone"] = info
    ck.extra["hash_order_sites_total"] = sorted(sites)
    ck.note("cglue_gen::util::crate_path_fixed reads the environment only to decide between `::cglue` and `crate` as the path prefix; it cannot reorder fields")

    # ---- (e) header cross-check -------------------------------------------------------------------------
    from rules import c16
    import os
    hp = os.path.join(facts.REPO, "examples", "pregen-headers", "bindings.h")
    if ck.require(os.path.exists(hp), "bindings.h"):
        structs = c16.parse_c_structs(open(hp).read())
        ex_adts = {a["name"]: a for a in ex.adts("plugin_api-staticlib")}
        cl = facts.cfg_cglue(features="task,futures")
        ex_adts.update({a["name"]: a for a in cl.adts("cglue-lib") if a["name"].endswith("Vtbl")})
        nh = 0
        for cname, cfields in sorted(structs.items()):
            base = cname.split("_")[0]
            if not (base.endswith("Vtbl") or base.endswith("Group") or base.endswith("Container")):
                continue
            adt = ex_adts.get(base)
            if adt is None:
                continue
            nh += 1
            rn = [nm for nm, f in model.adt_fields(adt) if not model.is_phantom(f)]
            cn = [nm for nm, _ in cfields]
            if base.endswith("Container"):
                rn = [x for x in rn if not x.startswith("ret_tmp") or x in cn]
            ck.ob("E-header-order", "header/" + cname, rn == cn, "bindings.h %s fields %s; Rust %s declares %s" % (cname, cn, adt["path"], rn),
                  sample={"c_struct": cname, "fields": cn})
        ck.floor("header vtable/group structs", nh, 10)
    return ck.finish(
        "vtable slot lists vs trait definitions (order, completeness, only fn pointers), group/With/Final/Vtables/container field order, "
        "compiler-computed layout equality of every opaque/concrete pair in the probe matrix, absence of hash-ordered iteration and other "
        "nondeterminism sources in the call-graph cone of the layout-defining macros, header cross-check",
        rule_text="obligation = one (generated item, clause) pair; corpus items have exact expected lists, repository items structural clauses",
        trusted=["rustc layout_of", "driver call-graph edges (direct calls, fn items as operands, closures, conservative generic dispatch)"])
