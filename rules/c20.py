"""C20 -- runtime layout validation (claimed clauses V1-V4; abi_stable's own comparison is not analysed).

V1 every generated ADT and every runtime wrapper implements StableAbi in a layout_checks build;
V2 nothing hides fields from the comparison (no `sabi(unsafe_opaque_field..)` emitted by the generator; only c_void carries it);
V3 VerifyLayout::and / is_valid_* evaluated over their complete finite domains equal the documented tables;
V4 compare_layouts evaluated over {None,Some}^2 x {Ok,Err}: Unknown iff a description is missing, Valid only for Ok of
   check_layout_compatibility(expected, found) in that argument order, Invalid for Err; check::<T> passes T::LAYOUT as expected.
"""
import os, re
from lib import corpus, facts, mir, report
from rules import c03

SABI = "abi_stable::StableAbi"
VL = "cglue::trait_group::VerifyLayout"


def evaluate(body, decide, max_steps=200):
    """Follow the CFG from entry choosing switch arms with decide(scrutinee origin) -> int; returns visited blocks or None."""
    b = 0
    path = [0]
    for _ in range(max_steps):
        t = body.blocks[b]["t"]
        k = t["k"]
        if k == "return":
            return path
        if k == "switch":
            v = decide(body.origin_operand(t["o"]))
            if v is None:
                return None
            tg = {int(x): bb for x, bb in t["targets"]}
            b = tg.get(v, t["otherwise"])
        elif k in ("goto", "drop", "assert"):
            b = t["t"]
        elif k == "call":
            if t["t"] is None:
                return None
            b = t["t"]
        else:
            return None
        path.append(b)
    return None


def result_on_path(body, path, env):
    """Value of _0 at return, evaluated along this one path (the last definition of each local *on the path* counts, so joins are
    resolved by the path, not merged): ('variant', name) | ('const', v) | the value of an argument from env | ('call', path) | ('?', text)."""
    events = []     # (local, kind, payload) in path order
    for b in path:
        for s in body.blocks[b]["s"]:
            if s["k"] == "assign" and not s["p"]["p"]:
                events.append((s["p"]["l"], "rv", s["r"]))
        t = body.blocks[b]["t"]
        if t["k"] == "call" and not t["d"]["p"]:
            events.append((t["d"]["l"], "call", t))

    def operand(o, upto, depth):
        if "k" in o:
            c = o["k"]
            if "int" in c:
                return ("const", int(c["int"]))
            if "bool" in c:
                return ("const", 1 if c["bool"] else 0)
            return ("?", "const " + c.get("ty", ""))
        pl = o.get("c") or o.get("m")
        if pl is None:
            return ("?", "operand")
        v = local(pl["l"], upto, depth + 1)
        for e in pl["p"]:
            # tuple fields: `match (self, other)` binds through `(_3.0)` / `(_3.1)`
            if e[0] == "f" and v[0] == "tuple" and e[1] < len(v[1]):
                v = v[1][e[1]]
            else:
                return ("?", "projection %s of %s" % (e, v[0]))
        return v

    def local(l, upto, depth=0):
        if depth > 30:
            return ("?", "depth")
        for idx in range(upto - 1, -1, -1):
            ll, kind, payload = events[idx]
            if ll != l:
                continue
            if kind == "call":
                return ("call", mir.callee_path(payload))
            r = payload
            if r["k"] == "agg" and r.get("ak") == "adt":
                return ("variant", r["variant"])
            if r["k"] == "agg" and r.get("ak") == "tuple":
                return ("tuple", [operand(x, idx, depth) for x in r["ops"]])
            if r["k"] == "use":
                return operand(r["o"], idx, depth)
            if r["k"] == "un" and r["op"] == "Not":
                v = operand(r["o"], idx, depth)
                return ("const", 0 if v[1] else 1) if v[0] == "const" else ("?", "not " + str(v))
            if r["k"] == "cast":
                return operand(r["o"], idx, depth)
            o = body.origin_rvalue(r)
            if o[0] == "const":
                return ("const", o[1])
            return ("?", mir.fmt(o))
        if 1 <= l <= body.argc:
            return env.get(l, ("?", "arg%d" % l))
        return ("?", "undefined _%d" % l)

    return local(0, len(events))


def run(tier):
    ck = report.Check("C20", tier, level="other")
    cl = facts.cfg_cglue(features="layout_checks")
    ck.unit("cglue lib (layout_checks)")
    adts = {a["path"]: a for a in cl.adts("cglue-lib")}
    fns = {f["path"]: f for f in cl.fns("cglue-lib")}
    vl = adts.get(VL)
    if not ck.require(vl is not None, "enum VerifyLayout"):
        return ck.finish("anchor missing")
    disc = {v["name"]: int(v["discr"]) for v in vl["variants"]}
    ck.require(set(disc) == {"Valid", "Invalid", "Unknown"}, "VerifyLayout variants Valid/Invalid/Unknown")
    names = {v: k for k, v in disc.items()}

    # ---- V3: and / is_valid_* (every input of the finite domain, evaluated by lib/sem: any spelling -- nested or tuple match,
    # matches!, ==, early return -- yields the same case summaries) ----------------------------------------------------
    from lib import sem
    ev = sem.Evaluator(fns, adts, inline=lambda p: p.startswith(("cglue::", "<cglue::")) or "::{closure" in p)

    def var(n):
        return ("agg", "adt", VL, n, ())

    def verdict(outs):
        if len(outs) == 1 and outs[0].kind == "ret":
            r = sem.strip(outs[0].ret)
            if r[0] == "agg" and r[1] == "adt":
                return ("variant", r[3])
            return r
        return ("undecided", [repr(o)[:120] for o in outs])
    fn = fns.get(VL + "::and")
    if ck.require(fn is not None, "VerifyLayout::and"):
        pure = True
        for a in disc:
            for b in disc:
                outs = ev.run(fn, [var(a), var(b)])
                got = verdict(outs)
                pure = pure and all(not [e for e in o.effects if e[0] in ("call", "icall")] for o in outs)
                want = "Invalid" if "Invalid" in (a, b) else ("Unknown" if "Unknown" in (a, b) else "Valid")
                ck.ob("V3-and-table", "and(%s,%s)" % (a, b), got == ("variant", want),
                      "VerifyLayout::and(%s, %s) evaluates to %s, the documented rule gives %s" % (a, b, got, want),
                      sample={"and": [a, b], "result": want})
        ck.ob("V3-and-pure", "and", pure, "VerifyLayout::and calls functions the evaluation cannot see into")
    for nm, truth in (("is_valid_strict", {"Valid"}), ("is_valid_relaxed", {"Valid", "Unknown"})):
        fn = fns.get(VL + "::" + nm)
        if ck.require(fn is not None, "VerifyLayout::" + nm):
            for a in disc:
                me = ("sym", "self")
                outs = ev.run(fn, [me], init=[(("ext", me), (), var(a))])
                got = verdict(outs)
                ck.ob("V3-" + nm, "%s(%s)" % (nm, a), got == ("const", 1 if a in truth else 0), "%s(%s) evaluates to %s" % (nm, a, got))

    # ---- V4: compare_layouts ---------------------------------------------------------------------
    cl_log = facts.cfg_cglue(features="layout_checks,log")
    ck.unit("cglue lib (layout_checks,log)")
    fns_log = {f_["path"]: f_ for f_ in cl_log.fns("cglue-lib")}
    ev_log = sem.Evaluator(fns_log, {a["path"]: a for a in cl_log.adts("cglue-lib")}, inline=lambda p: p.startswith(("cglue::", "<cglue::")) or "::{closure" in p)
    for cfg_label, fns_c, ev in (("", fns, ev), ("+log", fns_log, ev_log)):
      fn = fns_c.get("cglue::trait_group::compare_layouts")
      if ck.require(fn is not None, "compare_layouts" + cfg_label):
          E, F = ("sym", "expected"), ("sym", "found")

          def opt(x):
              return ("agg", "adt", "std::option::Option", "Some", (x,)) if x is not None else ("agg", "adt", "std::option::Option", "None", ())
          pass
          for e in (None, E):
              for f_ in (None, F):
                  outs = ev.run(fn, [opt(e), opt(f_)])
                  label = "compare%s(%s,%s" % (cfg_label, "Some" if e else "None", "Some" if f_ else "None")
                  if not (e and f_):
                      got = verdict(outs)
                      cmp_calls = [c for o in outs for c in o.calls("check_layout_compatibility")]
                      for r in ("Ok", "Err"):
                          ck.ob("V4-verdict-table", "%s,%s)" % (label, r), got == ("variant", "Unknown") and not cmp_calls,
                                "compare_layouts with a missing description yields %s (comparison called: %s); must be Unknown without comparing" % (got, bool(cmp_calls)),
                                sample={"expected": bool(e), "found": bool(f_), "verdict": "Unknown"})
                      continue
                  seen = {}
                  order_ok = True
                  for o in outs:
                      cc = o.calls("check_layout_compatibility")
                      if o.kind != "ret" or len(cc) != 1:
                          seen["?"] = repr(o)[:160]
                          continue
                      order_ok = order_ok and sem.strip(cc[0][2][0]) == E and sem.strip(cc[0][2][1]) == F
                      rs = [c[2] for c in o.conds if c[0] == "discr" and sem.contains(c[1], lambda x: x[0] == "call" and "check_layout_compatibility" in x[1])]
                      r = sem.strip(o.ret)
                      seen.setdefault(rs[0] if rs else "?", set()).add(r[3] if r[0] == "agg" else sem.fmt(r))
                  ck.ob("V4-one-comparison", "compare_layouts" + cfg_label, "?" not in seen, "compare_layouts(Some, Some) must call abi_stable's comparison exactly once in every case: %s" % seen.get("?"))
                  ck.ob("V4-argument-order", "compare_layouts" + cfg_label, order_ok, "compare_layouts does not pass (expected, found) to the comparison in that order",
                        sample={"args": ["expected", "found"]})
                  for r, want in (("Ok", "Valid"), ("Err", "Invalid")):
                      ck.ob("V4-verdict-table", "%s,%s)" % (label, r), seen.get(r) == {want} and "?" not in seen,
                            "compare_layouts(Some, Some) with comparison result %s yields %s; must be %s" % (r, seen.get(r) or seen.get("?"), want),
                            sample={"expected": True, "found": True, "cmp": r, "verdict": want})
    fn = fns.get(VL + "::check")
    if ck.require(fn is not None, "VerifyLayout::check"):
        body = mir.Body(fn)
        o = body.origin_local(0)
        ok = o[0] == "call" and o[1] == "cglue::trait_group::compare_layouts" and o[2][1] == ("arg", 1) and o[2][0][0] == "agg" and o[2][0][2] == "Some"
        if ok:
            inner = mir.strip(o[2][0][4][0])
            ok = inner[0] == "uneval" and inner[1].endswith("LAYOUT")
        ck.ob("V4-check-expected-is-own-layout", "VerifyLayout::check", ok, "VerifyLayout::check::<T> must call compare_layouts(Some(T::LAYOUT), layout): %s" % mir.fmt(o))

    # ---- V1: StableAbi everywhere ----------------------------------------------------------------
    have = {im.get("self_adt") for im in cl.impls("cglue-lib") if im.get("trait") == SABI}
    for mod, name in c03.RUNTIME:
        if mod == "task":
            continue
        p = "cglue::%s::%s" % (mod, name)
        ck.ob("V1-runtime-stableabi", p, p in have, "runtime type %s has no StableAbi impl in a layout_checks build" % p)
    for a in cl.adts("cglue-lib"):
        if c03.generated(a):
            ck.ob("V1-generated-stableabi", "cglue/" + a["path"], a["path"] in have, "generated %s has no StableAbi impl" % a["path"])
    cf = corpus.corpus_facts(tier, features="layout_checks")
    ck.unit("corpus-%s (layout_checks)" % tier)
    have_c = {im.get("self_adt") for im in cf.impls() if im.get("trait") == SABI}
    n = 0
    for a in cf.adts():
        if c03.generated(a):
            n += 1
            ck.ob("V1-generated-stableabi", "corpus/" + a["path"], a["path"] in have_c, "generated %s (%s) has no StableAbi impl in a layout_checks build" % (a["path"], a["span"]),
                  sample={"adt": a["path"]})
    ck.floor("generated ADTs in layout_checks corpus", n, 440)
    ex = facts.cfg_examples()
    ck.unit("examples/plugin-api (layout_checks is its default)")
    have_e = {im.get("self_adt") for im in ex.impls("plugin_api-staticlib") if im.get("trait") == SABI}
    ne = 0
    for a in ex.adts("plugin_api-staticlib"):
        if c03.generated(a):
            ne += 1
            ck.ob("V1-generated-stableabi", "plugin-api/" + a["path"], a["path"] in have_e, "generated %s has no StableAbi impl" % a["path"])
    ck.floor("generated ADTs in plugin-api", ne, 20)

    # ---- V2: nothing hides fields ------------------------------------------------------------------------
    # the generator as it is built for a layout_checks expansion (cfg(feature = "layout_checks") code included)
    gf = facts.cfg_gen(features="cglue-gen/layout_checks,cglue-macro/layout_checks")
    ck.unit("cglue-gen (feature layout_checks) string constants")
    from rules.c16 import str_consts
    bad = []
    seen_ident = False
    seen_lc = False
    for f in gf.fns("cglue_gen-lib"):
        out = []
        str_consts(f["body"], out)
        for p in f.get("promoted", []):
            str_consts(p, out)
        for s in out:
            if s == "PhantomData" or s == "StableAbi":
                seen_ident = True
            if s == "StableAbi":
                seen_lc = True
            if s in ("sabi", "unsafe_opaque_fields", "unsafe_opaque_field", "unsafe_unconstrained") or "unsafe_opaque_field" in s:
                bad.append((f["path"], s))
    ck.require(seen_lc, "the analysed generator build contains the layout_checks code (identifier `StableAbi` present)")
    ck.require(seen_ident, "quote! identifiers are visible as string constants in cglue-gen's MIR (scan is not vacuous)")
    ck.ob("V2-generator-emits-no-opaque-field-attr", "cglue-gen", not bad, "cglue-gen can emit a field-hiding sabi attribute: %s" % bad)
    # in the runtime crate, `sabi(unsafe_opaque_fields)` may be carried by c_void only
    src = os.path.join(facts.REPO, "cglue", "src")
    carriers = []
    for d, _, files in os.walk(src):
        for fn_ in files:
            if fn_.endswith(".rs"):
                lines = open(os.path.join(d, fn_)).read().split("\n")
                for i, l in enumerate(lines):
                    if re.search(r"sabi\(\s*(unsafe_opaque_field|unsafe_unconstrained)", l):
                        item = ""
                        for j in range(i + 1, min(i + 6, len(lines))):
                            mm = re.match(r"\s*pub\s+(struct|enum|union)\s+(\w+)", lines[j])
                            if mm:
                                item = mm.group(2)
                                break
                        carriers.append((os.path.relpath(os.path.join(d, fn_), facts.REPO), item))
    ck.ob("V2-only-c_void-is-opaque", "cglue", all(it == "c_void" for _, it in carriers) and len(carriers) >= 1,
          "types hidden from layout comparison: %s (only c_void may be)" % carriers, sample={"carriers": carriers})
    return ck.finish(
        "finite-domain evaluation of VerifyLayout::and / is_valid_* (3x3 and 3 inputs) and of compare_layouts ({None,Some}^2 x {Ok,Err}) against the "
        "documented tables, argument order of the comparison call, StableAbi impl facts for every generated ADT (corpus, plugin-api, cglue::ext) and "
        "runtime wrapper in a layout_checks build, and absence of field-hiding attributes",
        rule_text="obligation = one cell of a verdict table / one ADT / one carrier rule",
        trusted=["abi_stable's check_layout_compatibility distinguishes differing interfaces (third-party, not analysed)"])
