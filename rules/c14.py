"""C14 -- ReprCString owns one well-formed NUL-terminated buffer.

S1 pairing: every constructor leaks a `Box<[u8|c_char]>`; Drop reclaims a `Box<[c_char]>` of length string_size(ptr) from its own pointer.
S2 terminating idiom: every function that builds the ReprCString aggregate either delegates to another constructor or takes its buffer
   from an accepted idiom that yields "prefix before the first NUL, then exactly one NUL" (take_while(b != 0) . chain(Some(0)) . collect,
   or CString::new(..).into_bytes_with_nul()).
S3 single owner: aggregates are built only in constructors; Clone delegates to a constructor; the type is not Copy.
S4 by content: Deref/Display/Debug/Hash/PartialEq/Clone/Serialize go through AsRef<str>::as_ref, which reads string_size(ptr)-1 bytes
   from the owned pointer.
S5 ReprCStr::from(&CStr) takes CStr::as_ptr.
"""
from lib import facts, mir, report, ledger, forward

RC = "cglue::repr_cstring::"
SAME_LAYOUT_BYTES = ("[u8]", "[i8]", "[std::ffi::c_char]", "[core::ffi::c_char]")


def chain_of_calls(o):
    """Linear chain of call names from an origin, following argument 0 (receiver) through casts/refs."""
    out = []
    seen = 0
    while seen < 40:
        seen += 1
        o = mir.strip(o)
        if o[0] == "cast":
            o = o[2]
            continue
        if o[0] == "call":
            out.append(o)
            if not o[2]:
                break
            o = o[2][0]
            continue
        break
    return out, o


def closure_is_ne_zero(fns, closure_path):
    f = fns.get(closure_path)
    if f is None:
        return False
    b = mir.Body(f)
    o = b.origin_local(0)
    return o[0] == "bin" and o[1] == "Ne" and o[3] == ("const", 0, "u8") and mir.deepstrip(o[2])[0] in ("arg", "field")


def closure_is_eq_zero(fns, closure_path):
    f = fns.get(closure_path)
    if f is None:
        return False
    b = mir.Body(f)
    o = b.origin_local(0)
    return o[0] == "bin" and o[1] == "Eq" and o[3] == ("const", 0, "u8") and mir.deepstrip(o[2])[0] in ("arg", "field")


def idiom_prefix_then_push(fns, body, src):
    """Idiom C: `end = from.iter().position(|&b| b == 0).unwrap_or(from.len()); v = Vec::with_capacity(..)/new(); v.extend_from_slice(&from[..end]);
    v.push(0); v.into_boxed_slice()` -- the prefix before the first NUL, then exactly one NUL."""
    chain, leaf = chain_of_calls(src)
    cn = [c[1] for c in chain]
    if not (len(cn) >= 2 and cn[0].endswith("into_boxed_slice") and (cn[-1].endswith("Vec::<T>::with_capacity") or cn[-1].endswith("Vec::<T>::new"))):
        return False, "buffer comes from %s" % " <- ".join(n.split("::")[-1] for n in cn[:6])
    mk_bb = chain[-1][3]
    vec_local = body.blocks[mk_bb]["t"]["d"]["l"]
    muts = []
    for i, t in body.calls():
        if i == mk_bb or not t["args"]:
            continue
        a0 = body.origin_operand(t["args"][0])
        if a0[0] == "ref" and a0[2] and mir.strip(a0[1]) == body.origin_local(vec_local) and (mir.callee_path(t) or "").startswith("std::vec::Vec"):
            muts.append((i, t))
    names = [(mir.callee_path(t) or "").split("::")[-1] for _, t in muts]
    if names != ["extend_from_slice", "push"] or not body.dominates(muts[0][0], muts[1][0]) or any(body.in_cycle(i) or not body.on_all_paths_to_return(i) for i, _ in muts):
        return False, "the Vec is filled by %s (expected extend_from_slice(prefix) then push(0))" % names
    if body.origin_operand(muts[1][1]["args"][1]) != ("const", 0, "u8"):
        return False, "the pushed terminator is not the constant 0"
    sl = mir.strip(body.origin_operand(muts[0][1]["args"][1]))
    if not (sl[0] == "call" and sl[1].endswith("Index::index") and mir.strip(sl[2][0]) == ("arg", 1)):
        return False, "the copied prefix is not a slice of the argument: %s" % mir.fmt(sl)[:80]
    rng = sl[2][1]
    if not (rng[0] == "agg" and str(rng[1]).endswith("RangeTo") and len(rng[4]) == 1):
        return False, "the copied prefix is not `..end`"
    end = mir.strip(rng[4][0])
    ok = end[0] == "call" and end[1].endswith("Option::<T>::unwrap_or") and mir.strip(end[2][1])[0] == "call" and mir.strip(end[2][1])[1].endswith("::len") \
        and mir.strip(mir.strip(end[2][1])[2][0]) == ("arg", 1)
    if ok:
        pos = mir.strip(end[2][0])
        ok = pos[0] == "call" and pos[1].endswith("Iterator::position") and mir.contains(pos[2][0], lambda x: x == ("arg", 1))
        if ok:
            clo = pos[2][1]
            cpath = clo[1][len("closure:"):] if clo[0] == "agg" and str(clo[1]).startswith("closure:") else None
            ok = cpath is not None and closure_is_eq_zero(fns, cpath)
    return (True, "prefix up to position(b == 0) + push(0)") if ok else (False, "`end` is not position(|b| b == 0).unwrap_or(len) of the argument")


LEN_OF_SLICE = ("core::slice::<impl [T]>::len",)


def run(tier):
    ck = report.Check("C14", tier, level="other")
    f = facts.cfg_cglue()
    ck.unit("cglue lib: repr_cstring.rs")
    fns = {x["path"]: x for x in f.fns("cglue-lib")}
    mine = {p: x for p, x in fns.items() if "/repr_cstring.rs" in x["span"] and "::tests::" not in p}
    ck.floor("functions in repr_cstring.rs", len(mine), 20)
    adt = [a for a in f.adts("cglue-lib") if a["path"] == RC + "ReprCString"]
    if not ck.require(len(adt) == 1, "struct ReprCString"):
        return ck.finish("anchor missing")
    # ---- constructors ---------------------------------------------------------------------------------------
    ctors = []
    for p, fn in sorted(mine.items()):
        body = mir.Body(fn)
        for i in sorted(body.live_blocks()):
            for s in body.blocks[i]["s"]:
                if s["k"] == "assign" and s["r"]["k"] == "agg" and s["r"].get("adt") == RC + "ReprCString":
                    ctors.append((p, fn, body, s["r"]))
    ck.floor("ReprCString aggregate construction sites", len(ctors), 1)
    builders_private = set()
    for p, fn, body, agg in ctors:
        key = "cglue/" + p
        is_from = fn.get("impl_trait") == "std::convert::From" and fn.get("impl_self_adt") == RC + "ReprCString"
        # a private helper shared by the constructors is a builder too: not visible outside the crate and called only by From impls of ReprCString
        callers = sorted({q for q, g in mine.items() for _, t in mir.Body(g).calls() if (mir.callee_res(t) or mir.callee_path(t)) == p})
        helper = not is_from and not fn.get("vis", "Public").startswith("Public") and bool(callers) and all(
            mine[q].get("impl_trait") == "std::convert::From" and mine[q].get("impl_self_adt") == RC + "ReprCString" for q in callers)
        if helper:
            builders_private.add(p)
        ck.ob("S3-built-only-in-constructors", key, is_from or helper,
              "%s builds a ReprCString outside a From constructor (or a private helper called only by them); callers: %s" % (p, callers))
        sites = ledger.prim_sites(body)
        leaks = [s for s in sites if s.kind == "box_leak"]
        ok = len(leaks) == 1 and len(sites) == 1 and body.on_all_paths_to_return(leaks[0].bb)
        lt = c0 = None
        if ok:
            lt = (leaks[0].term["callee"].get("args") or [None])[0]
            ok = lt in SAME_LAYOUT_BYTES
        ck.ob("S1-constructor-leaks-one-byte-slice", key, ok,
              "%s (%s) must leak exactly one Box<[u8]>; it leaks `%s` via %s -- Drop frees a Box<[c_char]>, anything else is leaked or freed with the wrong layout"
              % (p, fn["span"], lt, [repr(s) for s in sites]), sample={"fn": p, "leaked": lt})
        # the pointer stored is the data pointer of what was leaked
        o = body.origin_operand(agg["ops"][0])
        calls, leaf = chain_of_calls(o)
        names = [c[1] for c in calls]
        has_leak = any(n.endswith("::leak") for n in names)
        ck.ob("S1-pointer-is-leaked-buffer", key, has_leak and any(n.endswith("as_mut_ptr") or n.endswith("as_ptr") or n.endswith("NonNull::<T>::from") or n == "std::convert::From::from" for n in names),
              "%s stores %s, not the data pointer of the buffer it leaked" % (p, mir.fmt(o)[:160]))
        # S2: what was leaked
        idx = next((k for k, n in enumerate(names) if n.endswith("::leak")), None)
        good, why = False, "no leak call"
        if idx is not None:
            src = calls[idx][2][0]
            chain, leaf2 = chain_of_calls(src)
            cn = [c[1] for c in chain]
            # idiom A: into_boxed_slice(collect(chain(take_while(X, |b| b != 0), Some(0))))
            if len(cn) >= 4 and cn[0].endswith("into_boxed_slice") and cn[1] == "std::iter::Iterator::collect" and cn[2] == "std::iter::Iterator::chain" and cn[3] == "std::iter::Iterator::take_while":
                ch = chain[2]
                term = ch[2][1]
                tw = chain[3]
                clo = tw[2][1]
                cpath = clo[1][len("closure:"):] if clo[0] == "agg" and clo[1].startswith("closure:") else None
                # the terminator is an iterable of exactly one zero byte: Some(0), iter::once(0), [0]
                one_zero = (term[0] == "agg" and len(term) > 4 and len(term[4]) == 1 and term[4][0] == ("const", 0, "u8")) or \
                           (term[0] == "call" and term[1].endswith("iter::once") and mir.strip(term[2][0]) == ("const", 0, "u8"))
                good = one_zero and cpath is not None and closure_is_ne_zero(fns, cpath) \
                    and mir.contains(tw[2][0], lambda x: x == ("arg", 1))
                why = "terminator=%s predicate=%s source-from-arg=%s" % (mir.fmt(term), cpath, mir.contains(tw[2][0], lambda x: x == ("arg", 1)))
            # idiom B: CString::new(..).into_bytes_with_nul().into_boxed_slice()
            elif any(n.endswith("CString::new") for n in cn) and any(n.endswith("into_bytes_with_nul") or n.endswith("into_boxed_c_str") for n in cn):
                good, why = True, "CString"
            else:
                good, why = idiom_prefix_then_push(fns, body, src)
        ck.ob("S2-buffer-is-prefix-plus-one-nul", key, good,
              "%s (%s): the leaked buffer is not built by an accepted NUL-terminating idiom (take_while(b != 0).chain(Some(0)).collect or CString): %s -- "
              "without a terminator string_size reads past the allocation, with an interior NUL Drop frees a different length" % (p, fn["span"], why),
              sample={"fn": p, "idiom": why})
    # delegating constructors / Clone
    for p, fn in sorted(mine.items()):
        if fn.get("impl_self_adt") == RC + "ReprCString" and fn.get("impl_trait") in ("std::convert::From", "std::clone::Clone") and not any(c[0] == p for c in ctors):
            body = mir.Body(fn)
            o = body.origin_local(0)
            # delegation to another From constructor of ReprCString (which is checked as a constructor or as a delegation itself)
            fz = o[4] if o[0] == "call" and len(o) > 4 and o[4] else ()
            target = (fz[4] if len(fz) > 4 and fz[4] else (fz[3] if len(fz) > 3 and fz[3] else "")) or ""
            ok = o[0] == "call" and (o[1] == forward.INTO or o[1] == "std::convert::From::from") and bool(target) and "ReprCString as std::convert::From<" in target \
                and target.split(">::from")[0] != p.split(">::from")[0]
            if not ok and o[0] == "call" and o[1] in builders_private and o[2]:
                # delegation to the private builder: its input must be the bytes of this constructor's own argument, in order and unmodified
                a = o[2][0]
                chain_ok = True
                for _ in range(8):
                    a = mir.strip(a)
                    if a == ("arg", 1):
                        break
                    if a[0] == "call" and a[2] and a[1].split("::")[-1] in ("bytes", "iter", "copied", "cloned", "into_iter", "as_bytes", "as_str", "as_ref", "deref"):
                        a = a[2][0]
                        continue
                    chain_ok = False
                    break
                ok = chain_ok and a == ("arg", 1)
                target = o[1]
            ck.ob("S3-delegates-to-constructor", "cglue/" + p, ok, "%s must delegate to another From constructor of ReprCString: %s" % (p, mir.fmt(o)[:160]), sample={"fn": p, "to": target})
    ck.ob("S3-not-copy", "cglue/ReprCString", not any(im.get("self_adt") == RC + "ReprCString" and im.get("trait") == "std::marker::Copy" for im in f.impls("cglue-lib")), "ReprCString implements Copy")
    # ---- Drop -------------------------------------------------------------------------------------------------
    dp = mine.get("<cglue::repr_cstring::ReprCString as std::ops::Drop>::drop")
    if ck.require(dp is not None, "Drop for ReprCString"):
        body = mir.Body(dp)
        sites = ledger.prim_sites(body)
        ok = len(sites) == 1 and sites[0].kind == "box_from_raw" and body.on_all_paths_to_return(sites[0].bb) and not body.in_cycle(sites[0].bb)
        detail = ""
        if ok:
            ty = (sites[0].term["callee"].get("args") or [None])[0]
            a = body.origin_operand(sites[0].term["args"][0])
            frp = [x for x in mir.walk(a) if x[0] == "call" and x[1].endswith("from_raw_parts_mut")]
            ok = ty in SAME_LAYOUT_BYTES and len(frp) == 1
            if ok:
                ptr, ln = mir.deepstrip(frp[0][2][0]), mir.deepstrip(frp[0][2][1])
                own_ptr = lambda x: mir.contains(x, lambda y: y == ("field", ("arg", 1), "0"))
                ok = own_ptr(ptr) and ln[0] == "call" and ln[1] == RC + "string_size" and own_ptr(ln[2][0])
                detail = "ptr=%s len=%s" % (mir.fmt(ptr)[:80], mir.fmt(ln)[:80])
        ck.ob("S1-drop-frees-own-buffer-with-scanned-length", "cglue/ReprCString::drop", ok,
              "Drop must rebuild Box<[c_char]> from (own pointer, string_size(own pointer)) exactly once: %s" % detail, sample={"drop": detail})
    # ---- S4 by content --------------------------------------------------------------------------------------------
    ar = mine.get("<cglue::repr_cstring::ReprCString as std::convert::AsRef<str>>::as_ref")
    if ck.require(ar is not None, "AsRef<str> for ReprCString"):
        body = mir.Body(ar)
        o = body.origin_local(0)
        frp = [x for x in mir.walk(o) if x[0] == "call" and x[1].endswith("from_raw_parts")]
        ok = len(frp) == 1
        if ok:
            ptr, ln = mir.deepstrip(frp[0][2][0]), mir.deepstrip(frp[0][2][1])
            own_ptr = lambda x: mir.contains(x, lambda y: y == ("field", ("arg", 1), "0"))
            # len = string_size(ptr) - 1
            lo = ln
            if lo[0] == "field" and lo[2] == "0":
                lo = lo[1]      # (SubWithOverflow(..)).0
            ok = own_ptr(ptr) and lo[0] == "bin" and lo[1].startswith("Sub") and lo[3] == ("const", 1, "usize") and lo[2][0] == "call" and lo[2][1] == RC + "string_size" and own_ptr(lo[2][2][0])
        if not ok:
            from lib import sem
            ev = sem.Evaluator(fns, {}, inline=lambda q: q.startswith((RC, "<" + RC)) and not q.endswith("string_size"))
            me = ("sym", "self")
            outs = ev.run(ar, [me])
            if len(outs) == 1 and outs[0].kind == "ret":
                own = lambda x: sem.contains(x, lambda y: y == ("fld", me, 0, "0"))
                frp = [e for e in outs[0].calls() if e[1].endswith("from_raw_parts")]
                ss = [e for e in outs[0].calls() if e[1] == RC + "string_size"]
                ok = len(frp) == 1 and len(ss) == 1 and own(frp[0][2][0]) and own(ss[0][2][0])
                if ok:
                    ln = sem.strip(frp[0][2][1])
                    ok = ln[0] == "opq" and ln[2][0] == "bin" and ln[2][1].startswith("Sub") and sem.strip(ln[2][3]) == ("const", 1) and sem.strip(ln[2][2])[0] == "opq" and sem.strip(ln[2][2])[1] == ss[0][3] \
                        and sem.contains(outs[0].ret, lambda y: y[0] == "opq" and y[1] == frp[0][3])
        ck.ob("S4-as-ref-reads-prefix", "cglue/ReprCString::as_ref", ok, "as_ref must read string_size(ptr) - 1 bytes from the owned pointer: %s" % mir.fmt(o)[:200])
    n_content = 0
    for p, fn in sorted(mine.items()):
        if fn.get("impl_self_adt") == RC + "ReprCString" and (fn.get("impl_trait") or "") in (
                "std::ops::Deref", "std::fmt::Display", "std::fmt::Debug", "std::hash::Hash", "std::cmp::PartialEq", "std::clone::Clone", "serde::Serialize"):
            body = mir.Body(fn)
            calls = [mir.callee_res(t) or "" for _, t in body.calls()]
            uses = [c for c in calls if c == "<cglue::repr_cstring::ReprCString as std::convert::AsRef<str>>::as_ref"]
            raw = [c for c in calls if "from_raw_parts" in c or c.endswith("string_size")]
            n_content += 1
            ck.ob("S4-by-content-through-as-ref", "cglue/" + p, len(uses) >= (2 if fn["name"] == "eq" else 1) and not raw,
                  "%s does not go through AsRef<str>::as_ref (or touches the raw buffer itself): %s" % (p, [c.split("::")[-1] for c in calls][:8]), sample={"fn": p})
    ck.floor("by-content trait impls", n_content, 6)
    # ---- string_size scans for the first NUL --------------------------------------------------------------------------
    ss = fns.get(RC + "string_size")
    ck.require(ss is not None and ss.get("unsafe"), "string_size is an unsafe fn")
    if ss is not None:
        # the terminator is the first byte *equal to* 0: every comparison of a loaded byte in string_size (and its closures) is `== 0` / `!= 0`
        bodies = [ss] + [g for q, g in fns.items() if q.startswith(RC + "string_size::{closure")]
        cmps = []
        for g in bodies:
            for pb in [g["body"]]:
                b = mir.Body(g, pb)
                for i2 in sorted(b.live_blocks()):
                    for st_ in b.blocks[i2]["s"]:
                        if st_["k"] == "assign" and st_["r"]["k"] == "bin" and st_["r"]["op"] in ("Eq", "Ne", "Lt", "Le", "Gt", "Ge"):
                            a_, b_ = b.origin_operand(st_["r"]["a"]), b.origin_operand(st_["r"]["b"])
                            tys = (a_[2] if a_[0] == "const" else "", b_[2] if b_[0] == "const" else "")
                            if any(t in ("i8", "u8") for t in tys):
                                cmps.append((st_["r"]["op"], a_, b_))
        good = bool(cmps) and all(op in ("Eq", "Ne") and ((a_[0] == "const" and a_[1] == 0) or (b_[0] == "const" and b_[1] == 0)) for op, a_, b_ in cmps)
        if not cmps:
            # no scan of its own: the standard library's is used -- `CStr::from_ptr(ptr).to_bytes_with_nul().len()` is by definition the
            # index of the first NUL + 1
            ro = mir.deepstrip(mir.Body(ss).origin_local(0))
            good = ro[0] == "call" and ro[1] in LEN_OF_SLICE and ro[2] and (lambda b_: b_[0] == "call" and b_[1].endswith("CStr::to_bytes_with_nul") and
                                                                         (lambda c_: c_[0] == "call" and c_[1].endswith("CStr::from_ptr") and mir.deepstrip(c_[2][0]) == ("arg", 1))(mir.deepstrip(b_[2][0])))(mir.deepstrip(ro[2][0]))
        ck.ob("S6-terminator-test-is-equality-with-zero", "cglue/string_size", good,
              "string_size must look for the first byte equal to 0: byte comparisons found %s" % [(op, mir.fmt(a_)[:30], mir.fmt(b_)[:30]) for op, a_, b_ in cmps],
              sample={"comparisons": [op for op, _, _ in cmps]})
    # ---- S5 ------------------------------------------------------------------------------------------------------
    cs = mine.get("<cglue::repr_cstring::ReprCStr<'a> as std::convert::From<&'a std::ffi::CStr>>::from")
    if ck.require(cs is not None, "From<&CStr> for ReprCStr"):
        o = mir.Body(cs).origin_local(0)
        ok = mir.contains(o, lambda x: x[0] == "call" and x[1].endswith("CStr::as_ptr") and mir.deepstrip(x[2][0]) == ("arg", 1))
        ck.ob("S5-borrowed-view-uses-cstr-pointer", "cglue/ReprCStr::from", ok, "ReprCStr::from(&CStr) does not take CStr::as_ptr of its argument")
    return ck.finish(
        "every function that builds a ReprCString is a From constructor that leaks exactly one Box<[u8]> built by a NUL-terminating idiom "
        "(prefix before the first NUL + one NUL) and stores its data pointer; Drop rebuilds Box<[c_char]> from (own pointer, string_size(own pointer)); "
        "all other impls delegate to as_ref, which reads string_size-1 bytes of the owned pointer",
        rule_text="obligation = one (function, rule); the idiom table (2 entries) is the stated limit of this check",
        trusted=["Iterator::take_while/chain/collect and CString semantics", "string_size returns the index of the first NUL + 1 (read, not analysed)"])
