"""C06 -- every owned value is destroyed exactly once, nothing leaked (ownership ledger L1-L5 over boxed/trait_group + generated code).

Safe Rust already proves exactly-once destruction; only sites that bypass ownership tracking can break it.  Every such site in
cglue's boxed.rs / trait_group.rs and in all generated code is classified (net effect per path), constructors are paired with the
destructor they store (same pointee type), destructors are reachable only through the slot that stores them, Drop impls call the
slot exactly once on the path where it is Some, casts and opaque conversions are pure moves.
"""
from lib import corpus, facts, mir, model, report, ledger, forward

FILES = ("/boxed.rs", "/trait_group.rs")


def first_type_arg(site):
    c = (site.term or {}).get("callee") or {}
    a = c.get("args") or []
    return a[0] if a else None


def slot_fn_in_aggregate(body, adt_suffix=None):
    """{field: fn path} for Some(fnconst) / fnconst operands of aggregates built in the body."""
    out = {}
    for i in sorted(body.live_blocks()):
        for s in body.blocks[i]["s"]:
            if s["k"] == "assign" and s["r"]["k"] == "agg" and s["r"].get("ak") == "adt":
                for fname, op in zip(s["r"]["fields"], s["r"]["ops"]):
                    o = body.origin_operand(op)
                    if o[0] == "agg" and o[2] == "Some" and o[4]:
                        o = o[4][0]
                    while o[0] == "cast":
                        o = o[2]
                    if o[0] == "fnconst":
                        out.setdefault(s["r"]["adt"], {})[fname] = (o[1], o[2][1])
    return out


def classify_library(ck, f, unit, files, label, extra_ok=None):
    """L1-L4 over the functions of the given files."""
    fns = [x for x in f.fns(unit) if any(fl in x["span"] for fl in files) and "::tests::" not in x["path"] and not x["exp"]]
    by = {x["path"]: x for x in f.fns(unit)}
    summaries = {}
    stored = {}       # fn path -> (owner fn, adt, field)
    for fn in fns:
        body, sites, nets, loops = ledger.fn_summary(fn)
        summaries[fn["path"]] = (fn, body, sites, nets, loops)
        for adt, flds in slot_fn_in_aggregate(body).items():
            for fld, (p, targs) in flds.items():
                stored[p] = (fn["path"], adt, fld, targs)
    n_sites = 0
    for path, (fn, body, sites, nets, loops) in sorted(summaries.items()):
        if not sites:
            continue
        n_sites += len(sites)
        key = "%s/%s" % (label, path)
        ck.ob("L1-no-primitive-in-loop", key, not loops, "%s: ownership primitive inside a loop: %s" % (path, loops))
        if nets is None:
            ck.violation("L1-paths", key, "%s: too many paths to classify" % path)
            continue
        ns = set(nets)
        is_drop = fn.get("impl_trait") == "std::ops::Drop"
        if extra_ok and extra_ok(fn, sites, ns):
            continue
        if ns == {0}:
            ck.ob("L1-balanced", key, True, sample={"fn": path, "sites": [repr(s) for s in sites]})
        elif ns == {-1}:
            # constructor: stores the leaked pointer next to a reclaimer of net +1 with the same pointee type
            aggs = slot_fn_in_aggregate(body)
            recl = None
            for adt, flds in aggs.items():
                for fld, (p, targs) in flds.items():
                    if fld == "drop_fn":
                        recl = (adt, p, targs)
            good = recl is not None and recl[1] in summaries and summaries[recl[1]][3] is not None and (set(summaries[recl[1]][3]) in ({1}, {0, 1}))
            ck.ob("L2-constructor-stores-reclaimer", key, good,
                  "%s relinquishes ownership (%s) without storing a destructor next to the pointer" % (path, [repr(s) for s in sites]),
                  sample={"constructor": path, "reclaimer": recl[1] if recl else None})
            if good:
                dsites = summaries[recl[1]][2]
                st = first_type_arg([s for s in sites if s.effect < 0][0])
                dt = first_type_arg([s for s in dsites if s.effect > 0][0])
                ck.ob("L3-freed-with-allocated-type", key, st == dt and st is not None and (not recl[2] or recl[2][0] in (st, st.strip("[]"))),
                      "%s leaks a `%s` but the stored destructor %s reclaims a `%s` (instantiated at %s)" % (path, st, recl[1], dt, recl[2]),
                      sample={"leaked": st, "reclaimed": dt})
        elif ns == {1} and not is_drop:
            ck.ob("L2-destructor-is-stored-reclaimer", key, path in stored and stored[path][2] == "drop_fn",
                  "%s materialises an owner (%s) but is not the destructor stored by any constructor" % (path, [repr(s) for s in sites]),
                  sample={"destructor": path, "stored_by": stored.get(path, (None,))[0]})
            ck.ob("L2-destructor-abi", key, fn.get("abi", "").startswith("C"), "%s is stored in a value that crosses modules but is not extern \"C\"" % path)
        elif ns == {0, 1} and is_drop:
            slot = [s for s in sites if s.kind.startswith("slot:")]
            good = len(slot) == 1 and len(sites) == 1
            if good:
                t = slot[0].term
                a0 = forward.leafify(body.origin_operand(t["args"][0]))
                if a0[0] == "agg" and a0[2] == "Some":
                    a0 = forward.leafify(a0[4][0])
                good = a0[0] == "field" and a0[2] == "instance" and forward.leafify(a0[1]) == ("arg", 1)
                # the zero path is the None arm of the slot's Option
                sws = mir.discr_switches(body)
                good = good and len(sws) == 1 and body.dominates(sws[0][2].get(1, -1), slot[0].bb)
            ck.ob("L4-drop-calls-slot-once", key, good, "%s must call its stored destructor exactly once with its own instance, and only when the slot is Some" % path,
                  sample={"drop": path})
        else:
            ck.violation("L1-unpaired", key, "%s: paths with net ownership effect %s (%s): some path leaks or double-frees" % (path, sorted(ns), [repr(s) for s in sites]))
    # who may call through drop_fn: only Drop::drop of the type that owns the slot
    for path, (fn, body, sites, nets, loops) in summaries.items():
        for s in sites:
            if s.kind == "slot:drop_fn":
                ck.ob("L4-only-drop-calls-slot", "%s/%s" % (label, path), fn.get("impl_trait") == "std::ops::Drop", "%s calls a stored destructor outside a Drop impl" % path)
    return n_sites, summaries


def gen_summaries(ck, ff, unit, label, r_move="L5-rettmp-move", r_unbal="L1-generated-unbalanced"):
    """Generated code owns what it holds through ordinary moves and drops; the only accepted uses of ownership primitives are the two
    forms of the RetTmp move idiom.  Shared by C06 (every owned value) and C07 (the context is one of the owned fields)."""
    n = 0
    for fn in ff.fns(unit):
        if not fn["exp"] or not any(mm in fn["macro"] for mm in ("cglue_trait", "cglue_impl_group", "cglue_forward")):
            continue
        body, sites, nets, loops = ledger.fn_summary(fn)
        if not sites:
            continue
        n += 1
        key = "%s/%s" % (label, fn["path"])
        kinds = sorted(s.kind for s in sites)
        if nets is not None and set(nets) == {0}:
            # the only accepted generated idiom with primitives: move a wrapped borrowed child into its RetTmp slot -- the value's bits are
            # copied into the slot and that same value is disarmed (mem::forget after the copy, or ManuallyDrop::new before it)
            ok = kinds in (["forget", "ptr_copy"], ["manuallydrop_new", "ptr_copy"])
            if ok:
                cpy = [s for s in sites if s.kind == "ptr_copy"][0]
                fg = [s for s in sites if s.kind != "ptr_copy"][0]
                src = mir.peel(body.origin_operand(cpy.term["args"][0]))
                fo = mir.peel(body.origin_operand(fg.term["args"][0]), through_manuallydrop=False)
                if fg.kind == "forget":
                    ok = src == fo and body.dominates(cpy.bb, fg.bb)
                else:
                    ok = src == fo and body.dominates(fg.bb, cpy.bb)
            ck.ob(r_move, key, ok, "%s: generated code uses ownership primitives %s outside the RetTmp move idiom (copy value into slot, forget the same value)" % (fn["path"], kinds),
                  sample={"fn": fn["path"], "sites": kinds})
        elif nets is not None and set(nets) == {-1} and kinds == ["ptr_write"]:
            # second form of the same idiom (`ret_tmp.as_mut_ptr().write(ret)`): the wrapped child is moved into the slot
            w = sites[0]
            dst = mir.strip(body.origin_operand(w.term["args"][0]))
            while dst[0] == "call" and dst[1].endswith("as_mut_ptr"):
                dst = mir.strip(dst[2][0])
            val = body.origin_operand(w.term["args"][1])
            ok = dst[0] == "field" and dst[1] == ("arg", 1) and val[0] == "call" and val[1].endswith("Opaquable::into_opaque") and fn["def_kind"] == "Closure"
            ck.ob(r_move, key, ok, "%s: generated code writes %s into %s outside the RetTmp move idiom" % (fn["path"], mir.fmt(val)[:80], mir.fmt(dst)[:80]),
                  sample={"fn": fn["path"], "sites": kinds})
        else:
            ck.violation(r_unbal, key, "%s: generated function with net ownership effect %s (%s)" % (fn["path"], sorted(nets) if nets else None, kinds))
    return n


def run(tier):
    ck = report.Check("C06", tier, level="other")
    f = facts.cfg_cglue()
    ck.unit("cglue lib: boxed.rs, trait_group.rs")
    n_sites, summ = classify_library(ck, f, "cglue-lib", FILES, "cglue")
    ck.floor("ownership primitive sites in boxed.rs + trait_group.rs", n_sites, 10)
    # into_opaque: ManuallyDrop::new then ptr::read of that very ManuallyDrop, on every path
    io = summ.get("cglue::trait_group::Opaquable::into_opaque")
    if ck.require(io is not None, "Opaquable::into_opaque"):
        fn, body, sites, nets, loops = io
        kinds = sorted(s.kind for s in sites)
        # the bits of `self` are read out exactly once and `self` itself is disarmed exactly once (ManuallyDrop::new or mem::forget), on every path
        ok = kinds in (["manuallydrop_new", "ptr_read"], ["forget", "ptr_read"]) and all(body.on_all_paths_to_return(s.bb) for s in sites)
        if ok:
            rd = [s for s in sites if s.kind == "ptr_read"][0]
            dis = [s for s in sites if s.kind != "ptr_read"][0]
            ok = mir.peel(body.origin_operand(rd.term["args"][0])) == ("arg", 1) and body.origin_operand(dis.term["args"][0]) == ("arg", 1)
            ro = body.origin_local(0)
            ok = ok and ro[0] == "call" and len(ro) > 3 and ro[3] == rd.bb
        ck.ob("L5-into-opaque-moves-bits", "cglue/into_opaque", ok, "into_opaque must wrap `self` in ManuallyDrop and return ptr::read of exactly that value on every path")
    ii = summ.get("<cglue::boxed::CBox<'_, T> as cglue::trait_group::IntoInner>::into_inner")
    if ck.require(ii is not None, "IntoInner for CBox"):
        fn, body, sites, nets, loops = ii
        fr = [s for s in sites if s.kind == "box_from_raw"]
        # `self` is disarmed exactly once: mem::forget(self) or ManuallyDrop::new(self)
        fg = [s for s in sites if s.kind in ("forget", "manuallydrop_new")]
        ok = len(fr) == 1 and len(fg) == 1 and len(sites) == 2
        if ok:
            a = mir.peel_place(body.origin_operand(fr[0].term["args"][0]))
            b = body.origin_operand(fg[0].term["args"][0])
            ok = a == ("field", ("arg", 1), "instance") and b == ("arg", 1) and all(body.on_all_paths_to_return(s.bb) for s in sites)
        ck.ob("L5-unboxing-forgets-the-box", "cglue/CBox::into_inner", ok, "CBox::into_inner must rebuild the Box from its own instance and forget `self` (else double free / leak)")
    # by-reference objects never drop or free what they borrow: drop glue of Ref/Mut instances is empty
    cf = corpus.corpus_facts(tier)
    ck.unit("corpus-%s" % tier)
    probes = {p["name"]: p for p in cf.probes()}
    n_ref = 0
    for n, p in sorted(probes.items()):
        if n.startswith("SS_bare_ref_") or n.startswith("SS_bare_mut_") or n.startswith("SS_cont_ref_noctx") or n.startswith("SS_cont_mut_noctx") or n.startswith("SS_obj_ref_noctx") \
                or n.startswith("SS_group_ref_noctx") or n.startswith("SS_group_mut_noctx"):
            n_ref += 1
            ck.ob("B-by-ref-has-no-drop-glue", "probe/" + n, p["needs_drop"] is False, "%s needs drop although it only borrows its instance" % p["ty"], sample={"ty": p["ty"][:100]})
    ck.floor("by-reference probes", n_ref, 20)
    # owning instances do need drop (the rule above is not vacuous)
    ck.require(probes.get("SS_bare_cbox_noctx_PSS", {}).get("needs_drop") is True, "CBox<T> needs drop (control)")
    # ---- generated code -------------------------------------------------------------------------------
    m = model.Model(cf)
    n_gen = gen_summaries(ck, cf, None, "corpus")
    ck.floor("generated functions using ownership primitives (corpus)", n_gen, 4)
    # casts are pure moves: no primitive at all, and group structs have no Drop impl
    n_cast = 0
    for grp in m.groups:
        for a in [grp.base] + list(grp.withs.values()) + list(grp.finals.values()) + [grp.container]:
            ck.ob("M-group-has-no-destructor", "corpus/" + a["path"], not a["has_dtor"], "%s has a Drop impl; casts destructure it by move" % a["path"])
        for fn in cf.fns():
            if fn.get("impl_self_adt") == grp.base["path"] and fn["name"].split("_impl_")[0] in ("cast", "into", "as_ref", "as_mut", "check"):
                body, sites, nets, loops = ledger.fn_summary(fn)
                n_cast += 1
                ck.ob("M-cast-is-pure-move", "corpus/" + fn["path"], not sites, "%s uses ownership primitives %s" % (fn["path"], sites))
    ck.floor("cast functions", n_cast, 40)
    ct = facts.cfg_cglue(tests=True)
    ck.unit("cglue --tests")
    gen_summaries(ck, ct, "cglue-test", "cglue-tests")
    ex = facts.cfg_examples()
    ck.unit("examples")
    gen_summaries(ck, ex, None, "examples")
    return ck.finish(
        "ownership ledger: every site that bypasses ownership tracking (forget, ManuallyDrop, leak/into_raw/from_raw, ptr::read/write/copy, "
        "assume_init, transmute of droppy types, drop_in_place, calls through stored drop/clone slots) in boxed.rs, trait_group.rs and all generated "
        "code is classified by per-path net effect, paired constructor<->stored destructor with equal pointee type, and confined (who-may-call)",
        rule_text="obligation = one (function, ledger rule); functions are discovered by the primitives they use, not listed",
        trusted=["documented semantics of the std primitives in lib/ledger.py", "panics/unwinding are outside the property"])
