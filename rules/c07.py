"""C07 -- the context lives as long as any derived object, and no longer.

K1 by-reference receiver with a wrapped return: the wrapper clones the context of its own container and that clone is the context
   operand of the returned object's construction, on every path.
K2 by-value receiver: the context of the consumed container is moved into the result (or dropped inside the wrapper).
K3 consuming-call guard in the opaque impl: a clone of the container's context is taken before the vtable call and dropped only
   after the call has returned.
K4 no orphan context: storage that receives a wrapped child holding a context clone (RetTmp slots) must be released by someone.
K5 nothing forgets a context except the RetTmp move idiom (shared with C06).
Counting over all histories then follows from field ownership (each object owns one context field; the language drops it once).
"""
import re
from lib import corpus, facts, mir, model, report, forward, ledger

TG = "cglue::trait_group::"
CLONE = "std::clone::Clone::clone"


def _ctx_capture_index(m, cpath, depth=0):
    """Index of the capture of closure `cpath` that ends up as the context in `from2((ret, ctx))`, possibly through a nested closure."""
    cf = m.fn(cpath)
    if cf is None or depth > 3:
        return None
    cb = mir.Body(cf)
    for _, t in cb.calls():
        p = mir.callee_path(t) or ""
        if p.endswith("From2::from2") or p == forward.INTO or p == "std::convert::From::from":
            a = cb.origin_operand(t["args"][0])
            if a[0] == "agg" and a[1] == "tuple" and len(a[4]) == 2:
                ctx = forward.leafify(a[4][1])
                if ctx[0] == "field" and forward.leafify(ctx[1]) == ("arg", 1) and ctx[2].isdigit():
                    return int(ctx[2])
    # nested closure (e.g. `ret.map(|ret| { let mut conv = |ret| ..; conv(ret) })`)
    for i in sorted(cb.live_blocks()):
        for s in cb.blocks[i]["s"]:
            if s["k"] == "assign" and s["r"]["k"] == "agg" and s["r"].get("ak") == "closure":
                inner = _ctx_capture_index(m, s["r"]["closure"], depth + 1)
                if inner is not None and inner < len(s["r"]["ops"]):
                    o = forward.leafify(cb.origin_operand(s["r"]["ops"][inner]))
                    if o[0] == "field" and forward.leafify(o[1]) == ("arg", 1) and o[2].isdigit():
                        return int(o[2])
    return None


def closure_ctx_capture(m, wrapper_path, body):
    """Find the closure built in a wrapper whose body wraps (ret, ctx) with From2::from2 / Into::into.
    Returns (closure aggregate operand origins, capture index used as the context, closure path, block) or None."""
    for i in sorted(body.live_blocks()):
        for s in body.blocks[i]["s"]:
            if s["k"] == "assign" and s["r"]["k"] == "agg" and s["r"].get("ak") == "closure":
                idx = _ctx_capture_index(m, s["r"]["closure"])
                if idx is not None:
                    ops = [body.origin_operand(o) for o in s["r"]["ops"]]
                    return ops, idx, s["r"]["closure"], i
    return None


def check_model(ck, m, label, stats):
    for g in m.gen_traits:
        if "::ffi_controls::" in g.vtbl_path:
            continue
        for name, w in g.wrappers.items():
            wi = forward.analyze_wrapper(g, name, w)
            if wi.accessor is None:
                continue
            body = wi.body
            key = "%s/%s.%s" % (label, g.vtbl_path, name)
            acc_bb, acc_t, acc_path = wi.accessor
            cc = closure_ctx_capture(m, w["path"], body)
            if cc is not None:
                ops, idx, cf, cbb = cc
                stats["wrapped_returns"] += 1
                if not ck.ob("K1-context-captured", key, idx is not None and idx < len(ops), "wrapper %s: cannot identify the context captured by the wrapping closure" % w["path"]):
                    continue
                o = ops[idx]
                if wi.recv_kind == "own":
                    want = ("field", None, "1")
                    lo = forward.leafify(o)
                    ok = lo[0] == "field" and lo[2] == "1" and lo[1][0] == "call" and lo[1][1] == acc_path and forward.leafify(lo[1][2][0]) == ("arg", 1)
                    ck.ob("K2-owned-context-moved-into-result", key, ok,
                          "wrapper %s (by-value receiver) wraps its result with context %s, not the context of the container it consumed" % (w["path"], mir.fmt(o)[:160]),
                          sample={"wrapper": w["path"], "context": mir.fmt(o)[:100]})
                else:
                    ok = o[0] == "call" and o[1] == CLONE
                    if ok:
                        src = forward.leafify(o[2][0])
                        ok = src[0] == "field" and src[2] == "2" and src[1][0] == "call" and src[1][1] == acc_path and forward.leafify(src[1][2][0]) == ("arg", 1)
                        ok = ok and body.on_all_paths_to_return(o[3]) and not body.in_cycle(o[3])
                    ck.ob("K1-returned-object-holds-own-clone", key, ok,
                          "wrapper %s (by-reference receiver) wraps its result with context %s; it must be a fresh clone of its own container's context, taken on every path" % (w["path"], mir.fmt(o)[:160]),
                          sample={"wrapper": w["path"], "context": mir.fmt(o)[:100]})
            else:
                # no wrapped return: a by-reference wrapper must not clone/keep the context; a by-value one drops it (safe code)
                pass
            # ---- K3 on the opaque side for consuming calls --------------------------------------
            if wi.recv_kind == "own":
                of = g.opaque.get(name)
                if of is None:
                    continue
                oi = forward.analyze_opaque(g, name, of)
                if len(oi.icalls) != 1:
                    continue
                ob = oi.body
                stats["consuming"] += 1
                guards = []
                for i, t in ob.calls():
                    if mir.callee_path(t) == CLONE:
                        src = forward.leafify(ob.origin_operand(t["args"][0]))
                        if src[0] == "field" and src[2] == "1" and src[1][0] == "call" and src[1][1] == TG + "CGlueObjBase::cobj_base_ref":
                            cont = forward.leafify(src[1][2][0])
                            if cont[0] == "call" and cont[1] == TG + "GetContainer::into_ccont":
                                guards.append((i, t))
                ok = len(guards) == 1 and ob.dominates(guards[0][0], oi.call_bb)
                detail = ""
                if ok:
                    gl = guards[0][1]["d"]["l"]
                    # every Drop of the guard local happens after the vtable call has returned
                    after = mir.dominated(ob, oi.icalls[0][1]["t"]) if oi.icalls[0][1]["t"] is not None else set()
                    drops = [i for i in sorted(ob.live_blocks()) if ob.blocks[i]["t"]["k"] == "drop" and ob.blocks[i]["t"]["p"]["l"] == gl and not ob.blocks[i]["t"]["p"]["p"]]
                    # the guard may also be released explicitly: moved into `mem::drop(guard)` after the call has returned (its only move)
                    moves = [(i, t) for i, t in ob.calls() for a in t["args"] if "m" in a and a["m"]["l"] == gl and not a["m"]["p"]]
                    explicit = [i for i, t in moves if (mir.callee_path(t) or "") in ("std::mem::drop", "core::mem::drop")]
                    moved = len(moves) != len(explicit)
                    # ... possibly through a temporary: any mem::drop whose argument is the value produced by the guard's clone call
                    for i, t in ob.calls():
                        if (mir.callee_path(t) or "") in ("std::mem::drop", "core::mem::drop") and i not in explicit:
                            ao = ob.origin_operand(t["args"][0])
                            if ao[0] == "call" and ao[1] == CLONE and len(ao) > 3 and ao[3] == guards[0][0]:
                                explicit.append(i)
                    release_sites = drops + explicit
                    ok = bool(release_sites) and all(d in after for d in release_sites) and not moved
                    detail = "drops at blocks %s, blocks after the call %s, moved=%s" % (drops, sorted(after)[:8], moved)
                ck.ob("K3-context-guard-spans-consuming-call", "%s/%s.%s" % (label, g.vtbl_path, name), ok,
                      "opaque impl %s (by-value self): a clone of the container's context must be taken before the vtable call and dropped only after it returns (%d guards; %s)" % (of["path"], len(guards), detail),
                      sample={"impl": of["path"]})


def slot_kind(stored_ty):
    obj = stored_ty.startswith("cglue::trait_group::CGlueTraitObj<")
    mm = re.search(r"<'_, (&mut |&)", stored_ty)
    kind = "mut" if mm and mm.group(1).startswith("&mut") else "ref"
    return "wrap_with_%s_%s" % ("obj" if obj else "group", kind)


def check_slots(ck, f, unit, label, releasers):
    """K4 / L6: MaybeUninit storage holding a needs_drop value in an ADT without destructor that nobody releases."""
    n = 0
    for p in f.kind("slotprobe", unit):
        for fld in p["fields"]:
            n += 1
            if not fld["stored_needs_drop"]:
                ck.ob("K4-slot-holds-nothing-droppable", "%s/%s.%s/%s" % (label, p["adt"], fld["name"], p["ctx"]), True,
                      sample={"slot": p["name"] + "." + fld["name"], "ctx": p["ctx"], "needs_drop": False})
                continue
            released = p["has_dtor"] or (p["adt"], fld["name"]) in releasers
            kind = slot_kind(fld["stored_ty"])
            ck.ob("K4-orphan-context", kind if not released else "%s/%s.%s" % (label, p["adt"], fld["name"]), released,
                  "%s: the temporary-return slot `%s.%s` stores a %s that owns a clone of the context (%s) in MaybeUninit storage of a struct without destructor; "
                  "nothing ever releases it, each call leaks one context reference" % (kind, p["name"], fld["name"], fld["stored_ty"].split("<")[0], p["ctx"]),
                  detail={"adt": p["adt"], "field": fld["name"], "stored": fld["stored_ty"]})
    return n


def run(tier):
    ck = report.Check("C07", tier, level="other")
    stats = {"wrapped_returns": 0, "consuming": 0}
    cf = corpus.corpus_facts(tier)
    ck.unit("corpus-%s" % tier)
    m = model.Model(cf)
    check_model(ck, m, "corpus", stats)
    ck.floor("wrapped returns in corpus", stats["wrapped_returns"], 15)
    ck.floor("consuming methods in corpus", stats["consuming"], 30)
    # functions that release a slot (assume_init_drop / drop_in_place / assume_init_read applied to a field)
    releasers = set()
    for fn in cf.fns():
        body = mir.Body(fn)
        for _, t in body.calls():
            p = mir.callee_path(t) or ""
            if p.endswith("assume_init_drop") or p.endswith("drop_in_place") or p.endswith("assume_init_read"):
                for x in mir.walk(body.origin_operand(t["args"][0])):
                    if x[0] == "field" and fn.get("impl_self_adt"):
                        releasers.add((fn["impl_self_adt"], x[2]))
    # K5: the context is an ordinary owned field of the container; generated code that handles containers, objects and groups
    # (casts, conversions, wrappers) must leave its release to the language: any ownership primitive outside the RetTmp move idiom
    # (ManuallyDrop, forget, ptr::read, transmute of an owner ...) can leak or duplicate the context on some path
    from rules import c06
    n_k5 = c06.gen_summaries(ck, cf, None, "corpus", r_move="K5-context-owner-only-rettmp-move", r_unbal="K5-context-owner-bypasses-drop")
    ck.floor("generated functions using ownership primitives (corpus)", n_k5, 4)
    n_slots = check_slots(ck, cf, None, "corpus", releasers)
    ck.floor("RetTmp slot instantiations", n_slots, 8)
    ct = facts.cfg_cglue(tests=True)
    ck.unit("cglue --tests")
    m2 = model.Model(ct, "cglue-test")
    check_model(ck, m2, "cglue-tests", stats)
    c06.gen_summaries(ck, ct, "cglue-test", "cglue-tests", r_move="K5-context-owner-only-rettmp-move", r_unbal="K5-context-owner-bypasses-drop")
    ex = facts.cfg_examples()
    ck.unit("examples")
    m3 = model.Model(ex)
    check_model(ck, m3, "examples", stats)
    c06.gen_summaries(ck, ex, None, "examples", r_move="K5-context-owner-only-rettmp-move", r_unbal="K5-context-owner-bypasses-drop")
    # K6: Rust destroys fields in declaration order.  An object that is the last holder of the context must run its instance's
    # destructor (code that lives in the library the context keeps loaded) *before* the context is released: in every container the
    # `instance` field is declared before `context`
    n_k6 = 0
    for unit_f, unit, label in ((cf, None, "corpus"), (ct, "cglue-test", "cglue-tests"), (ex, None, "examples"), (facts.cfg_cglue(), "cglue-lib", "cglue")):
        for a in (unit_f.adts(unit) if unit else unit_f.adts()):
            if a.get("kind") != "struct" and len(a.get("variants", [])) != 1:
                continue
            names = [fl["name"] for fl in a["variants"][0]["fields"]]
            if "instance" in names and "context" in names:
                n_k6 += 1
                ck.ob("K6-instance-destroyed-before-context", "%s/%s" % (label, a["path"]), names.index("instance") < names.index("context"),
                      "%s declares `context` before `instance` (%s): when this object is the last holder, the context is released before the instance's destructor runs" % (a["path"], names),
                      sample={"adt": a["path"], "fields": names})
    ck.floor("containers holding an instance and a context", n_k6, 10)
    # the context handle itself: CArc / CArcSome conserve the reference count (clone adds one, drop and every conversion hand over or
    # release exactly one) -- the rules of C10, part of this property's statement whenever the context is a CArc
    from rules import c10
    c10.check_all(ck, tier)
    # positive control for K4: the controls crate has an orphan slot that must be seen as droppable storage without destructor
    ctl = corpus.controls_facts()
    oa = [a for a in ctl.adts() if a["name"] == "OrphanSlot"]
    ck.require(len(oa) == 1 and not oa[0]["has_dtor"] and "MaybeUninit<" in oa[0]["variants"][0]["fields"][0]["ty"], "control OrphanSlot present")
    ck.extra.update(stats)
    return ck.finish(
        "per generated method: the context operand of every wrapped return is a fresh clone of the wrapper's own container context (by-reference "
        "receivers, on every path) or the moved context of the consumed container (by-value receivers); the opaque impl of every consuming method "
        "holds a context clone from before the vtable call until after it returns; every RetTmp slot instantiation is checked for storage whose "
        "droppable contents nobody releases; generated code touching owners uses no ownership primitive outside the RetTmp move idiom (K5), so "
        "the context field of a consumed or converted object is released or moved by the language on every path",
        rule_text="obligation = one (method, K-rule) or one (RetTmp slot, context instantiation)",
        trusted=["each object owns exactly one context field and the language drops it exactly once (safe code)", "needs_drop as computed by rustc"])
