"""C01 -- calls through an opaque object behave like direct calls (forwarding shape).

R1 slot <-> wrapper: slot `f` of the default vtable holds the wrapper whose unique user-trait call is `X::f`.
R2 wrapper: exactly one call of a method of X, it is `f`, on every path, not in a loop; the receiver comes from component 0 of
   cobj_ref/cobj_mut/cobj_pin_*/cobj_base_owned(+into_inner) of parameter 0; argument k comes from parameter k, every parameter
   used by exactly one argument, order preserved.
R3 opaque impl: exactly one indirect call; the callee is slot `f` (or its `_lifetimed` getter, itself a transmute of `self.f`) of the
   vtable returned by X's own get_vtbl(self); argument 0 is ccont_*(self) of the matching kind; argument k from parameter k.
R4 accessors return projections of the same `self` (instance / ret_tmp / context; container; vtable field).
Custom-implemented and vtable-only methods are excluded by the property; they are listed from a table and reported as unverified.
"""
from lib import corpus, facts, mir, model, report, forward

TG = "cglue::trait_group::"

# methods whose C wrapper body or opaque impl is user-supplied (#[custom_impl]) or C-side only (#[vtbl_only]): excluded by C01.
# (trait path, method) -> reason; anything else lacking the forwarding shape is a violation.
EXCLUDED = {
    ("std::clone::Clone", "clone"): "cglue::ext: Clone uses the generic Self-return wrapping (build_with_ccont) -- verified as a wrapped return, not excluded",
}
CUSTOM = {
    # cglue::ext::core::fmt::* : #[custom_impl] forwards through a FmtWriter shim; wrapper does not call Trait::fmt directly with the same args
}


def getter_is_transmute_of_slot(m, getter_path, slot):
    f = m.fn(getter_path)
    if f is None:
        return False
    b = mir.Body(f)
    o = b.origin_local(0)
    # transmute(copy (*self).slot)
    while o[0] == "cast":
        o = o[2]
    if o[0] == "call" and o[1].endswith("transmute"):
        o = o[2][0]
    o = mir.strip(o)
    return o[0] == "field" and o[2] == slot and mir.strip(o[1]) == ("arg", 1)


def check_model(ck, m, label, custom_table, stats):
    for g in m.gen_traits:
        if "::ffi_controls::" in g.vtbl_path:
            continue
        meths = {}
        if g.trait is not None:
            meths = {it["name"]: it for it in g.trait["items"] if it["kind"] == "fn"}
        for name, _fld in g.fn_fields():
            key = "%s/%s.%s" % (label, g.vtbl_path, name)
            w = g.wrappers.get(name)
            if not ck.ob("R1-slot-has-wrapper", key, w is not None, "slot %s of %s is not initialised with a function item in Default for &%s" % (name, g.vtbl_path, g.vtbl["name"])):
                continue
            stats["methods"] += 1
            wi = forward.analyze_wrapper(g, name, w)
            excl = custom_table.get((g.trait_path, name))
            if excl:
                stats["excluded"].append({"method": g.trait_path + "::" + name, "reason": excl})
                continue
            if len(wi.trait_calls) != 1 or wi.method != name:
                got = [t["callee"]["name"] for _, t in wi.trait_calls]
                ck.ob("R1-slot-calls-same-name", key, False,
                      "slot `%s` of %s is wired to %s which calls %s of %s (expected exactly one call of `%s`)" % (name, g.vtbl["name"], w["path"], got or "no method", g.trait_path, name))
                continue
            ck.ob("R1-slot-calls-same-name", key, True, sample={"slot": name, "wrapper": w["path"], "calls": g.trait_path + "::" + wi.method})
            b = wi.body
            ck.ob("R2-once-on-all-paths", key, b.on_all_paths_to_return(wi.call_bb) and not b.in_cycle(wi.call_bb),
                  "wrapper %s does not call %s::%s exactly once on every path" % (w["path"], g.trait_path, name))
            # receiver
            ro = wi.recv_origin
            rk = wi.recv_kind
            ok = False
            if wi.accessor is not None:
                acc_path = wi.accessor[2]
                r = forward.leafify(ro)
                if rk == "own":
                    ok = r[0] == "call" and r[1] == TG + "IntoInner::into_inner" and forward.leafify(r[2][0])[0] == "field" and forward.leafify(r[2][0])[2] == "0" \
                        and forward.leafify(forward.leafify(r[2][0])[1])[0] == "call" and forward.leafify(forward.leafify(r[2][0])[1])[1] == acc_path \
                        and forward.leafify(forward.leafify(forward.leafify(r[2][0])[1])[2][0]) == ("arg", 1)
                else:
                    ok = r[0] == "field" and r[2] == "0" and forward.leafify(r[1])[0] == "call" and forward.leafify(r[1])[1] == acc_path \
                        and forward.leafify(forward.leafify(r[1])[2][0]) == ("arg", 1)
            ck.ob("R2-receiver-is-own-instance", key, ok, "wrapper %s: receiver of %s is %s, not the instance of its own container parameter" % (w["path"], name, mir.fmt(ro)[:200]),
                  sample={"wrapper": w["path"], "receiver": mir.fmt(ro)[:120]})
            if name in meths and meths[name].get("inputs"):
                want = forward.recv_kind_of_trait_input(meths[name]["inputs"][0])
                ck.ob("R2-receiver-kind", key, want is None or want == rk, "wrapper %s accesses the object as `%s` but %s takes `%s`" % (w["path"], rk, name, want))
            # arguments: position preserved, every parameter used exactly once (a trailing ok_out belongs to C13)
            params = [a["param"] for a in wi.args]
            n_extra = 1 if any(forward.norm_impl(p or "").endswith("into_int_out_result") for p in []) else 0
            has_out = any(mir.callee_path(t) == "cglue::result::into_int_out_result" for _, t in b.calls())
            nparams = b.argc - 1 - (1 if has_out else 0)
            ok_args = params == list(range(2, 2 + len(params))) and len(params) == nparams
            ck.ob("R2-args-in-order", key, ok_args,
                  "wrapper %s passes parameters %s to %s (expected each of its %d parameters once, in order)" % (w["path"], params, name, nparams),
                  sample={"wrapper": w["path"], "params_to_args": params})
            # ---- opaque impl --------------------------------------------------------------------
            of = g.opaque.get(name)
            if of is None:
                stats["no_opaque"].append(g.trait_path + "::" + name)
                if label == "corpus":
                    # no corpus method is #[vtbl_only]: a slot without a method in `impl Trait for CGlueO` means the opaque object
                    # inherits the trait's default body (or cannot be called at all) instead of reaching the wrapped value
                    ck.ob("R3-slot-has-opaque-impl", key, False, "trait %s: method `%s` has a vtable slot but `impl %s for <opaque>` does not define it" % (g.trait_path, name, g.trait_path))
                continue
            oi = forward.analyze_opaque(g, name, of)
            if not ck.ob("R3-one-vtable-call", key, len(oi.icalls) == 1, "opaque impl %s performs %d indirect calls (expected exactly one)" % (of["path"], len(oi.icalls))):
                continue
            ob = oi.body
            ck.ob("R3-once-on-all-paths", key, ob.on_all_paths_to_return(oi.call_bb) and not ob.in_cycle(oi.call_bb), "opaque impl %s does not call its vtable slot exactly once on every path" % of["path"])
            slot_ok = False
            if oi.slot is not None:
                slot_ok = oi.slot == name
            elif oi.getter is not None:
                slot_ok = oi.getter.endswith("::%s_lifetimed" % name) and getter_is_transmute_of_slot(m, oi.getter, name)
            ck.ob("R3-same-slot", key, slot_ok, "opaque impl %s calls slot %s (expected `%s`)" % (of["path"], oi.slot or oi.getter, name),
                  sample={"impl": of["path"], "slot": oi.slot or oi.getter})
            vs = oi.vtbl_src
            vt_self = forward.leafify(vs[2][0]) if vs is not None and vs[0] == "call" and vs[2] else None
            if vt_self is not None and vt_self[0] == "call" and vt_self[1] == "std::ops::Deref::deref":
                vt_self = forward.leafify(vt_self[2][0])    # `self: Pin<&Self>` derefs to Self
            vt_ok = vs is not None and vs[0] == "call" and vs[1].endswith("VtblGet::get_vtbl") and vt_self == ("arg", 1)
            if vt_ok:
                # the get_vtbl used is the one of this trait: its result type is &<this vtable>
                for _, t in ob.calls():
                    if mir.callee_path(t) == vs[1]:
                        vt_ok = t.get("dty", "").lstrip("&").startswith(g.vtbl_path)
            ck.ob("R3-own-vtable", key, vt_ok, "opaque impl %s takes its function pointer from %s, not from this trait's vtable of `self`" % (of["path"], mir.fmt(vs) if vs else None))
            want_cont = forward.ACCESSORS[wi.accessor[2]][1] if wi.accessor else None
            ck.ob("R3-container-of-self", key, oi.cont_call is not None and oi.cont_call[0] == want_cont and oi.cont_call[1] == ("arg", 1),
                  "opaque impl %s passes %s as the container (expected %s(self))" % (of["path"], oi.cont_call, want_cont))
            oparams = [a["param"] for a in oi.args if not (a["param"] is None and "MaybeUninit" in mir.fmt(a["origin"]))]
            ck.ob("R3-args-in-order", key, oparams == list(range(2, 2 + len(oparams))) and len(oparams) == ob.argc - 1,
                  "opaque impl %s passes parameters %s to the vtable call (expected each of its %d parameters once, in order)" % (of["path"], oparams, ob.argc - 1))


def _field_of(v, me):
    """Name of the field of `*me` / `me` that value v designates (directly, by reference, or through Deref::deref of it)."""
    from lib import sem
    v = sem.strip(v)
    if v[0] == "opq" and v[2][0] == "call" and v[2][1] in ("std::ops::Deref::deref", "std::ops::DerefMut::deref_mut") and v[2][2]:
        v = sem.strip(v[2][2][0])
    if v[0] == "ref" and v[1] == ("ext", me) and len(v[2]) == 1 and v[2][0][0] == "f":
        return v[2][0][2]
    if v[0] == "fld" and v[1] == me:
        return v[3]
    return None


def check_accessors(ck, f, unit, label):
    """R4: cobj_*/ccont_*/build_with_ccont/get_vtbl(_base) implementations project fields of `self`."""
    from lib import sem
    n = 0
    allf = {x["path"]: x for x in f.fns(unit)}
    ev = sem.Evaluator(allf, {a["path"]: a for a in f.adts(unit)}, inline=lambda p: True)
    for fn in f.fns(unit):
        it = fn.get("impl_trait") or ""
        nm = fn["name"]
        if not it.startswith(TG) and not it.endswith("VtblGet"):
            continue
        body = mir.Body(fn)
        key = "%s/%s" % (label, fn["path"])
        ret = body.origin_local(0)
        if it in (TG + "CGlueObjRef", TG + "CGlueObjMut", TG + "CGlueObjBase") and nm in ("cobj_ref", "cobj_mut", "cobj_base_ref", "cobj_base_owned"):
            n += 1
            # semantic form first: the returned tuple is (instance [through Deref], [ret_tmp,] context) of `self` itself, whatever helper
            # or destructuring the body goes through
            me = ("sym", "self")
            outs = ev.run(fn, [me])
            if len(outs) == 1 and outs[0].kind == "ret":
                r = sem.strip(outs[0].ret)
                names = [_field_of(x, me) for x in r[4]] if r[0] == "agg" and r[1] == "tuple" else []
                ok = len(names) in (2, 3) and names[0] == "instance" and names[-1] == "context" and (len(names) == 2 or (names[1] or "").startswith("ret_tmp"))
                ck.ob("R4-cobj-projects-self", key, ok, "%s does not return (instance, [ret_tmp,] context) of its own `self`: %s" % (fn["path"], sem.fmt(outs[0].ret)[:200]),
                      sample={"fn": fn["path"]})
                continue
            ok = ret[0] == "agg" and ret[1] == "tuple"
            if ok:
                comps = [forward.leafify(x) for x in ret[4]]
                inst = comps[0]
                if inst[0] == "call":     # Deref::deref(&self.instance)
                    inst = forward.leafify(inst[2][0])
                ok = inst[0] == "field" and inst[2] == "instance" and forward.leafify(inst[1]) == ("arg", 1)
                ctx = comps[-1]
                ok = ok and ctx[0] == "field" and ctx[2] == "context" and forward.leafify(ctx[1]) == ("arg", 1)
                if len(comps) == 3:
                    rt = comps[1]
                    ok = ok and rt[0] == "field" and rt[2].startswith("ret_tmp") and forward.leafify(rt[1]) == ("arg", 1)
            ck.ob("R4-cobj-projects-self", key, ok, "%s does not return (instance, [ret_tmp,] context) of its own `self`: %s" % (fn["path"], mir.fmt(ret)[:200]),
                  sample={"fn": fn["path"]})
        elif it == TG + "GetContainer" and nm in ("ccont_ref", "ccont_mut", "into_ccont"):
            n += 1
            r = forward.leafify(ret)
            ck.ob("R4-ccont-projects-self", key, r[0] == "field" and r[2] == "container" and forward.leafify(r[1]) == ("arg", 1),
                  "%s does not return `self.container`: %s" % (fn["path"], mir.fmt(ret)[:160]))
        elif it == TG + "GetContainer" and nm == "build_with_ccont":
            n += 1
            # semantic form first: whatever private constructor the body goes through, the result is an object whose `container` is the
            # argument and whose every other field is the field of the same name of `self`
            me, cont = ("sym", "self"), ("sym", "container")
            outs = ev.run(fn, [me, cont])
            if len(outs) == 1 and outs[0].kind == "ret" and sem.strip(outs[0].ret)[0] == "agg":
                r = sem.strip(outs[0].ret)
                adt = ev.adts.get(r[2]) if hasattr(ev, "adts") else None
                names = [fl["name"] for fl in adt["variants"][0]["fields"]] if adt else []
                ok = bool(names) and "container" in names and len(names) == len(r[4])
                if ok:
                    for fname, v in zip(names, r[4]):
                        if fname == "container":
                            ok = ok and sem.strip(v) == cont
                        else:
                            ok = ok and _field_of(v, me) == fname
                if ok:
                    ck.ob("R4-build-with-ccont", key, True, sample={"fn": fn["path"]})
                    continue
            ok = ret[0] == "agg" and "container" in ret[3]
            if ok:
                for fname, o in zip(ret[3], ret[4]):
                    o = forward.leafify(o)
                    if fname == "container":
                        ok = ok and o == ("arg", 2)
                    else:
                        ok = ok and o[0] == "field" and o[2] == fname and forward.leafify(o[1]) == ("arg", 1)
            ck.ob("R4-build-with-ccont", key, ok, "%s must rebuild `self` with the given container and every other field copied from the field of the same name: %s" % (fn["path"], mir.fmt(ret)[:200]))
        elif (it.endswith("VtblGet") and nm == "get_vtbl") or (it == TG + "GetVtblBase" and nm == "get_vtbl_base"):
            n += 1
            r = forward.leafify(ret)
            if r[0] == "call" and r[1] == TG + "GetVtblBase::get_vtbl_base":
                ok = forward.leafify(r[2][0]) == ("arg", 1)
            else:
                ok = r[0] == "field" and r[2].startswith("vtbl") and forward.leafify(r[1]) == ("arg", 1)
            ck.ob("R4-get-vtbl-projects-self", key, ok, "%s does not return a vtable field of its own `self`: %s" % (fn["path"], mir.fmt(ret)[:160]))
    return n


def check_forward_impls(ck, f, unit, label):
    """R5: `impl Trait for Fwd<T>` (from #[cglue_forward]) calls the method of the same name on `self.0`, once, arguments in order;
    and it defines every by-reference method of the trait, provided ones included (an inherited default body would bypass the
    implementor's override)."""
    n = 0
    traits = {t["path"]: t for t in f.traits(unit)}
    for im in f.impls(unit):
        if not (im.get("self_ty") or "").startswith("cglue::forward::Fwd<") or not im.get("exp") or im.get("trait") not in traits:
            continue
        if "cglue_forward" not in im.get("macro", "") and "cglue_builtin_ext_forward" not in im.get("macro", ""):
            continue
        have = {it["name"] for it in im["items"] if it["kind"] == "fn"}
        # the exported methods are those the opaque impl (`impl Trait for CGlueO`, from #[cglue_trait]) defines: #[skip_func] and
        # #[vtbl_only] methods are in neither impl by design
        exported = None
        for im2 in f.impls(unit):
            if im2.get("trait") == im["trait"] and im2.get("exp") and "cglue_trait" in im2.get("macro", "") and not im2.get("self_adt"):
                exported = {it["name"] for it in im2["items"] if it["kind"] == "fn"}
        if exported is None:
            continue
        for it in traits[im["trait"]]["items"]:
            if it["name"] not in exported:
                continue
            if it["kind"] != "fn" or not it.get("has_self") or not it["inputs"]:
                continue
            r0 = it["inputs"][0]
            if not (r0.startswith("&") or r0.startswith("std::pin::Pin<&")):
                continue
            ck.ob("R5-forward-defines-every-ref-method", "%s/%s::%s" % (label, im["trait"], it["name"]), it["name"] in have,
                  "impl %s for Fwd<T> does not define `%s`%s: a call through Fwd runs the trait's default body instead of the wrapped value's method"
                  % (im["trait"], it["name"], " (a provided method)" if it.get("has_default") else ""))
    for fn in f.fns(unit):
        if not (fn.get("impl_self") or "").startswith("cglue::forward::Fwd<") or not fn.get("impl_trait") or not fn["exp"]:
            continue
        if 'cglue_forward' not in fn["macro"] and "cglue_builtin_ext_forward" not in fn["macro"]:
            continue
        n += 1
        body = mir.Body(fn)
        key = "%s/%s" % (label, fn["path"])
        calls = [(i, t) for i, t in body.calls() if (t.get("callee") or {}).get("trait") == fn["impl_trait"]]
        ok = len(calls) == 1 and calls[0][1]["callee"]["name"] == fn["name"] and body.on_all_paths_to_return(calls[0][0]) and not body.in_cycle(calls[0][0])
        ck.ob("R5-forward-calls-same-name-once", key, ok, "%s calls %s of %s (expected exactly one call of `%s`)" % (fn["path"], [t["callee"]["name"] for _, t in calls], fn["impl_trait"], fn["name"]),
              sample={"fn": fn["path"]})
        if not ok:
            continue
        t = calls[0][1]
        recv = mir.deepstrip(body.origin_operand(t["args"][0]))
        while recv[0] == "call" and recv[1] in ("std::ops::Deref::deref", "std::ops::DerefMut::deref_mut"):
            recv = mir.deepstrip(recv[2][0])
        ck.ob("R5-forward-receiver-is-inner", key, recv == ("field", ("arg", 1), "0"), "%s forwards to %s instead of the handle it wraps (`self.0`)" % (fn["path"], mir.fmt(recv)[:120]))
        params = []
        for a in t["args"][1:]:
            o = mir.deepstrip(body.origin_operand(a))
            params.append(o[1] if o[0] == "arg" else None)
        ck.ob("R5-forward-args-in-order", key, params == list(range(2, 2 + len(params))) and len(params) == body.argc - 1,
              "%s passes parameters %s (expected each of its %d parameters once, in order)" % (fn["path"], params, body.argc - 1))
    return n


def check_cast_views(ck, m, label):
    """A cast (`as_ref!`, `as_mut!`, `cast!(..).upcast()`) reinterprets a group as one of its With-variants in place: the variant must name the
    same fields in the same positions, otherwise a call through the view reaches another trait's vtable."""
    n = 0
    for grp in m.groups:
        base = [nm for nm, _ in model.adt_fields(grp.base)]
        for wn, w in sorted(grp.withs.items()):
            n += 1
            got = [nm for nm, _ in model.adt_fields(w)]
            ck.ob("R6-cast-view-keeps-slot-positions", "%s/%s/%s" % (label, grp.base["path"], wn), got == base,
                  "%s declares its fields as %s but the group %s has %s: a reinterpreting cast would dispatch through the wrong slot" % (wn, got, grp.name, base),
                  sample={"group": grp.name, "view": wn})
    return n


def _erase_lt(ty):
    import re
    ty = re.sub(r"for<[^>]*>\s*", "", ty or "")
    ty = re.sub(r"'\w+\s*,\s*", "", ty)
    ty = re.sub(r"'\w+\s*", "", ty)
    return re.sub(r"\s+", " ", ty).strip()


def check_lifetimed_getters(ck, m, label):
    """`<slot>_lifetimed()` hands out the stored function under a transmuted type: apart from lifetimes that type must be the slot's own
    type (a different return representation behind the transmute would be called with the wrong ABI)."""
    n = 0
    for g in m.gen_traits:
        flds = {nm: f for nm, f in g.fn_fields()}
        for f in m.facts.fns(m.unit):
            if f.get("impl_self_adt") == g.vtbl_path and f["name"].endswith("_lifetimed") and f["name"][:-len("_lifetimed")] in flds:
                slot = f["name"][:-len("_lifetimed")]
                n += 1
                want, got = _erase_lt(flds[slot]["ty"]), _erase_lt(f["output"])
                ck.ob("R7-lifetimed-getter-keeps-slot-type", "%s/%s.%s" % (label, g.vtbl_path, slot), want == got,
                      "%s::%s_lifetimed returns `%s` but the slot is `%s`" % (g.vtbl_path, slot, f["output"][:160], flds[slot]["ty"][:160]), sample={"slot": slot})
    return n


def check_rettmp_slots(ck, m, f, unit, label):
    """Every method that lends a wrapped value stores it in a temporary-return slot of its own: two accessors sharing one slot would make
    the second call overwrite the object the first result points to."""
    n = 0
    for g in m.gen_traits:
        used = {}
        for name, w in g.wrappers.items():
            # the slot is handed to the wrapping closure as a captured `&mut ret_tmp.<slot>`
            body = mir.Body(w)
            for i in sorted(body.live_blocks()):
                for st_ in body.blocks[i]["s"]:
                    if st_["k"] == "assign" and st_["r"]["k"] == "agg" and st_["r"].get("ak") == "closure":
                        for op in st_["r"]["ops"]:
                            o = body.origin_operand(op)
                            # `&mut RetTmp::<slot>(ret_tmp)` (generated accessor) or `&mut ret_tmp.<slot>`; ret_tmp is component 1 of cobj_*()
                            from_tmp = mir.contains(o, lambda x: x[0] == "field" and x[2] == "1" and mir.strip(x[1])[0] == "call" and "::cobj_" in mir.strip(x[1])[1])
                            if not from_tmp:
                                continue
                            acc = [x for x in mir.walk(o) if x[0] == "call" and "RetTmp" in x[1]]
                            flds = [x for x in mir.walk(o) if x[0] == "field" and isinstance(x[2], str) and not x[2].isdigit()]
                            if acc:
                                used.setdefault(acc[0][1].split("::")[-1], set()).add(name)
                            elif flds:
                                used.setdefault(flds[0][2], set()).add(name)
        for slot, names in sorted(used.items()):
            n += 1
            ck.ob("R8-temporary-slot-per-method", "%s/%s.%s" % (label, g.vtbl_path, slot), len(names) == 1,
                  "methods %s of %s all store their lent result in the one temporary-return slot `%s`" % (sorted(names), g.trait_path, slot), sample={"slot": slot, "methods": sorted(names)})
    return n


def custom_table_for(label):
    return CUSTOM_TABLES.get(label, {})


CUSTOM_TABLES = {}


def run(tier):
    ck = report.Check("C01", tier, level="other")
    stats = {"methods": 0, "excluded": [], "no_opaque": []}
    cf = corpus.corpus_facts(tier)
    ck.unit("corpus-%s" % tier)
    m = model.Model(cf)
    check_model(ck, m, "corpus", {}, stats)
    na = check_accessors(ck, cf, None, "corpus")
    nf = check_forward_impls(ck, cf, None, "corpus")
    ck.floor("cast views in corpus", check_cast_views(ck, m, "corpus"), 8)
    ck.floor("lifetimed getters in corpus", check_lifetimed_getters(ck, m, "corpus"), 1)
    ck.floor("temporary-return slots in corpus", check_rettmp_slots(ck, m, cf, None, "corpus"), 5)
    ck.floor("forward impls in corpus", nf, 3)
    n_corpus = stats["methods"]
    ck.floor("generated methods in corpus", n_corpus, 240 if tier == "quick" else 1380)
    ck.floor("accessor implementations in corpus", na, 100)
    ct = facts.cfg_cglue(tests=True)
    ck.unit("cglue --tests (test traits + cglue::ext)")
    m2 = model.Model(ct, "cglue-test")
    from rules.c01_tables import CUSTOM_IMPL
    check_model(ck, m2, "cglue-tests", CUSTOM_IMPL, stats)
    check_accessors(ck, ct, "cglue-test", "cglue-tests")
    check_forward_impls(ck, ct, "cglue-test", "cglue-tests")
    check_cast_views(ck, m2, "cglue-tests")
    check_lifetimed_getters(ck, m2, "cglue-tests")
    check_rettmp_slots(ck, m2, ct, "cglue-test", "cglue-tests")
    cl = facts.cfg_cglue(features="task,futures")
    ck.unit("cglue lib (task,futures): cglue::ext incl. Future/Stream/Sink")
    check_model(ck, model.Model(cl, "cglue-lib"), "cglue-ext", CUSTOM_IMPL, stats)
    check_forward_impls(ck, cl, "cglue-lib", "cglue-ext")
    ex = facts.cfg_examples()
    ck.unit("examples")
    m3 = model.Model(ex)
    check_model(ck, m3, "examples", CUSTOM_IMPL, stats)
    check_accessors(ck, ex, None, "examples")
    ck.floor("generated methods in repository", stats["methods"] - n_corpus, 80)
    # results cross the boundary through the conversion rows (C02/C12) and, for #[int_result] methods, through the four integer-code
    # helpers: a helper that mis-decodes a code changes the result of the opaque call although forwarding is intact
    from rules import c13, c04
    c13.check_helpers(ck)
    # ... and a method marked for the lossless CResult form that is silently integer-coded loses its error value
    exp = corpus.expect(tier)
    ck.floor("corpus methods with a stated transport", c13.check_transport(ck, m, "corpus", c13.corpus_transport_expect(exp)), 300)
    # every exportable method of the hand-written corpus traits has its slot (a method without one runs the trait's default body
    # instead of the implementor's override)
    expected = {}
    for it in exp["items"]:
        if it["kind"] == "fixed":
            expected[it["trait"]] = ("cgv_corpus::" + it["mod"] + "::", it["slots"])
    c04.check_vtables(ck, m, "corpus", expected)
    ck.extra["methods_checked"] = stats["methods"]
    ck.extra["excluded_custom_or_vtbl_only"] = stats["excluded"]
    ck.extra["methods_without_opaque_impl_in_unit"] = sorted(set(stats["no_opaque"]))[:40]
    return ck.finish(
        "forwarding-shape rules on every generated method of the corpus grammar and of the repository's own traits: the slot of name f holds the "
        "wrapper whose single user-trait call is X::f on the instance of its own container, once on every path with parameters in order; the opaque "
        "impl calls exactly that slot of X's vtable of `self` once with ccont_*(self) and its parameters in order; accessors project `self`",
        rule_text="obligation = one (method, rule); custom_impl / vtbl_only methods are excluded by the property and listed in evidence",
        trusted=["user implementations are deterministic", "conversions are lossless (C02/C12/C13)"])
