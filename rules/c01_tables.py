"""Frozen table of methods excluded from C01 by the property itself (user-supplied custom or vtable-only implementations).

(trait path, method) -> reason.  Confirmed by reading the `#[custom_impl(..)]` / `#[vtbl_only(..)]` attributes at the named place.
Anything not listed here that lacks the forwarding shape is reported as a violation.
"""
FMT = ["Display", "Debug", "Octal", "LowerHex", "UpperHex", "Pointer", "Binary", "LowerExp", "UpperExp"]
CUSTOM_IMPL = {}
for t in FMT:
    CUSTOM_IMPL[("std::fmt::" + t, "fmt")] = "custom_impl: cglue-gen/src/ext/core/fmt.rs get_custom_impl -- C body is `write!(f_out, \"{:..}\", this)` through a WriteMut shim"
for fut in ("std::future::Future", "cglue::futures::Future"):
    CUSTOM_IMPL[(fut, "poll")] = "custom_impl: cglue-gen/src/ext/core/future.rs -- C body polls through CRefWaker::with_waker (checked under C19)"
for st in ("futures_core::stream::Stream", "cglue::futures::Stream"):
    CUSTOM_IMPL[(st, "poll_next")] = "custom_impl: cglue-gen/src/ext/futures/stream.rs"
for m in ("poll_ready", "start_send", "poll_flush", "poll_close"):
    for sk in ("futures_sink::Sink", "cglue::futures::Sink"):
        CUSTOM_IMPL[(sk, m)] = "custom_impl: cglue-gen/src/ext/futures/sink.rs"
for m in ("cimpl_1", "cimpl_2", "cimpl_3"):
    CUSTOM_IMPL[("cglue::tests::extra::custom_impl::CustomImpl", m)] = "custom_impl: cglue/src/tests/extra/custom_impl.rs (test of the attribute itself)"
