"""C12 -- slice views and C option/result/tuple types are lossless.

All functions concerned are straight-line field shuffles or discriminant matches, so shape rules over their MIR are exact for
every input: constructors store (as_ptr, len) of one and the same argument; conversions back rebuild from (data, len) of one and
the same view; no branch on the length; checked str conversions return `from_utf8*` of exactly (data, len); unchecked ones are
confined to `unsafe fn`; enum/tuple conversions map variant V to variant V and payload field i to field i by move.
"""
from lib import facts, mir, report, sem

VIEWS = ("cglue::slice::CSliceRef", "cglue::slice::CSliceMut")
PTR_GETTERS = ("core::slice::<impl [T]>::as_ptr", "core::slice::<impl [T]>::as_mut_ptr", "core::str::<impl str>::as_ptr",
               "core::str::<impl str>::as_mut_ptr")
LEN_GETTERS = ("core::slice::<impl [T]>::len", "core::str::<impl str>::len")
PASS_THROUGH = ("core::str::<impl str>::as_bytes", "core::str::<impl str>::as_bytes_mut")
RAW_PARTS = ("std::slice::from_raw_parts", "std::slice::from_raw_parts_mut", "core::slice::from_raw_parts", "core::slice::from_raw_parts_mut")
STD_ENUMS = {"std::option::Option": {"None": 0, "Some": 1}, "core::option::Option": {"None": 0, "Some": 1},
             "std::result::Result": {"Ok": 0, "Err": 1}, "core::result::Result": {"Ok": 0, "Err": 1}}


def base_of(o):
    """Strip refs/derefs/pointer casts and pass-through getters; returns the underlying origin."""
    while True:
        o = mir.strip(o)
        if o[0] == "call" and o[1] in PASS_THROUGH:
            o = o[2][0]
            continue
        if o[0] == "cast" and o[1] in ("PtrToPtr", "Transmute") or (o[0] == "cast" and str(o[1]).startswith("PointerCoercion")):
            o = o[2]
            continue
        return o


def ptr_src(o):
    """(kind, base): ('getter', base) for as_ptr(base) ; ('field', base) for base.data"""
    o2 = o
    while o2[0] == "cast":
        o2 = o2[2]
    if o2[0] == "call" and o2[1] in PTR_GETTERS:
        return ("getter", base_of(o2[2][0]))
    if o2[0] == "field" and o2[2] == "data":
        return ("field", base_of(o2[1]))
    return None


def len_src(o):
    if o[0] == "call" and o[1] in LEN_GETTERS:
        return ("getter", base_of(o[2][0]))
    if o[0] == "field" and o[2] == "len":
        return ("field", base_of(o[1]))
    return None


def all_bodies(f):
    return mir.bodies(f)[:1]


def has_switch(body):
    live = body.live_blocks()
    return any(body.blocks[i]["t"]["k"] == "switch" for i in live)


def run(tier):
    ck = report.Check("C12", tier, level="other")
    check_rows(ck)
    return ck.finish(
        "every function of cglue that builds a CSliceRef/CSliceMut, rebuilds a slice from one, decides UTF-8 validity, or converts between "
        "Option/Result/tuples and their C forms is checked by origin tracing over its MIR: (as_ptr,len) of one argument in, "
        "(data,len) of one view out, no length branch, variant V -> variant V with payload field i moved to field i, no calls",
        rule_text="obligation = one (function, clause); functions are discovered by what they construct/call, not by a list",
        trusted=["documented semantics of as_ptr/len/from_raw_parts/from_utf8", "moves in safe code are exactly-once (language)"])


def check_rows(ck):
    """Losslessness of every conversion row (shared by C02, whose pair table relies on it)."""
    f = facts.cfg_cglue()
    ck.unit("cglue lib (default features)")
    fns = f.fns("cglue-lib")
    adts = {a["path"]: a for a in f.adts("cglue-lib")}
    n_ctor = n_back = n_utf = n_enum = n_tup = 0
    ev = sem.Evaluator({x["path"]: x for x in fns}, adts, inline=lambda p: p.startswith(("cglue::", "<cglue::")) or "::{closure" in p)
    # functions of slice.rs that rebuild a slice from a view (each one is checked by S-back-ptr-len below): other conversions may
    # delegate to them instead of calling from_raw_parts themselves
    back_fns = set()
    for fn in fns:
        if "/slice.rs" in fn["span"] and any((mir.callee_path(t) or "") in RAW_PARTS for _, t in mir.Body(fn).calls()):
            back_fns.add(fn["path"])
    # ... and functions of slice.rs that only forward their argument to one of those (helpers shared by several conversions)
    for _ in range(3):
        for fn in fns:
            if "/slice.rs" not in fn["span"] or fn["path"] in back_fns:
                continue
            o = base_of(mir.Body(fn).origin_local(0))
            if o[0] == "call" and len(o[2]) == 1 and base_of(o[2][0]) == ("arg", 1):
                resolved = o[4][4] if len(o) > 4 and o[4] and len(o[4]) > 4 and o[4][4] else (o[4][3] if len(o) > 4 and o[4] and len(o[4]) > 3 and o[4][3] else o[1])
                if {o[1], resolved, resolved + "::from", resolved + "::into"} & back_fns:
                    back_fns.add(fn["path"])
    parts_helpers = {}
    for fn in fns:
        body = mir.Body(fn)
        live = body.live_blocks()
        key = fn["path"]
        # ---- constructors of slice views ---------------------------------------------------------
        for i in sorted(live):
            for s in body.blocks[i]["s"]:
                if s["k"] != "assign" or s["r"]["k"] != "agg" or s["r"].get("adt") not in VIEWS:
                    continue
                if "Clone" in (fn.get("impl_trait") or ""):
                    continue
                n_ctor += 1
                names = s["r"]["fields"]
                ops = {n: body.origin_operand(o) for n, o in zip(names, s["r"]["ops"])}
                d, l = ptr_src(ops["data"]), len_src(ops["len"])
                ok = d is not None and l is not None and d[0] == l[0] and d[1] == l[1] and d[1][0] == "arg"
                bd, bl = base_of(ops["data"]), base_of(ops["len"])
                if not ok and bd[0] == "arg" and bl[0] == "arg" and bd[1] != bl[1] and not has_switch(body):
                    # a "from raw parts" helper: stores its own pointer and length arguments untouched, so the pairing is decided
                    # at each of its call sites instead (P-parts-helper-call below)
                    parts_helpers[fn["path"]] = (bd[1], bl[1])
                    ok = True
                ck.ob("S-ctor-ptr-len", key, ok,
                      "%s (%s) builds a %s whose data/len do not come from the pointer and length of one and the same argument: data=%s len=%s"
                      % (fn["path"], fn["span"], s["r"]["adt"].split("::")[-1], mir.fmt(ops["data"]), mir.fmt(ops["len"])),
                      sample={"fn": fn["path"], "data": mir.fmt(ops["data"]), "len": mir.fmt(ops["len"])})
                ck.ob("S-no-length-branch", key, not has_switch(body), "%s branches while building a slice view (length-dependent behaviour)" % fn["path"])
        # ---- conversions back: from_raw_parts(data, len) --------------------------------------------
        if "/slice.rs" in fn["span"]:
            for bi, t in body.calls():
                cp = mir.callee_path(t)
                if cp in RAW_PARTS:
                    n_back += 1
                    a0 = body.origin_operand(t["args"][0])
                    a1 = body.origin_operand(t["args"][1])
                    d, l = ptr_src(a0), len_src(a1)
                    ok = d is not None and l is not None and d[0] == "field" and l[0] == "field" and d[1] == l[1] and d[1][0] == "arg"
                    ck.ob("S-back-ptr-len", "%s/%s" % (key, cp.split("::")[-1]), ok,
                          "%s (%s) calls %s with (%s, %s): not the data and len fields of one view" % (fn["path"], fn["span"], cp, mir.fmt(a0), mir.fmt(a1)),
                          sample={"fn": fn["path"], "call": cp, "args": [mir.fmt(a0), mir.fmt(a1)]})
                    mutable = cp.endswith("_mut")
                    want_mut = ("mut" in fn["name"]) or "&'a mut" in (fn.get("impl_self") or "") or "DerefMut" in (fn.get("impl_trait") or "")
                    ck.ob("S-back-mutability", "%s/%s" % (key, cp.split("::")[-1]), mutable == want_mut or not mutable,
                          "%s hands out a mutable slice from a shared view" % fn["path"])
                    ck.ob("S-no-length-branch", key, not has_switch(body), "%s branches on its way to from_raw_parts" % fn["path"])
                # copies of the contents would make callee writes invisible
                if cp and (cp.endswith("::to_vec") or cp.endswith("::to_owned") or cp.endswith("Clone::clone")) and "Debug" not in (fn.get("impl_trait") or "") \
                        and "Display" not in (fn.get("impl_trait") or "") and "Clone" not in (fn.get("impl_trait") or ""):
                    ck.violation("S-no-copy", key, "%s copies slice contents (%s); views must alias the original buffer" % (fn["path"], cp))
            # UTF-8 decision
            for bi, t in body.calls():
                cp = mir.callee_path(t) or ""
                if cp in ("core::str::from_utf8", "std::str::from_utf8", "core::str::from_utf8_mut", "std::str::from_utf8_mut"):
                    n_utf += 1
                    ret = body.origin_local(0)
                    ok = ret[0] == "call" and ret[1] == cp
                    ck.ob("U-checked-returned", key, ok, "%s does not return the verdict of %s unchanged: returns %s" % (fn["path"], cp, mir.fmt(ret)),
                          sample={"fn": fn["path"], "returns": mir.fmt(ret)[:120]})
                    a = body.origin_operand(t["args"][0])
                    a = mir.strip(a)
                    ok2 = a[0] == "call" and a[1] in RAW_PARTS
                    if not ok2 and a[0] == "call" and a[2]:
                        resolved = a[4][4] if len(a) > 4 and a[4] and len(a[4]) > 4 and a[4][4] else (a[4][3] if len(a) > 4 and a[4] and len(a[4]) > 3 and a[4][3] else a[1])
                        cand = {a[1], resolved, resolved + "::from", resolved + "::into"}
                        ok2 = bool(cand & back_fns) and base_of(a[2][0]) == ("arg", 1)
                    ck.ob("U-checked-input", key, ok2, "%s validates something other than the view's (data,len): %s" % (fn["path"], mir.fmt(a)))
                if "from_utf8_unchecked" in cp:
                    n_utf += 1
                    ck.ob("U-unchecked-only-in-unsafe-fn", key, bool(fn.get("unsafe")),
                          "safe function %s (%s) calls %s" % (fn["path"], fn["span"], cp), sample={"fn": fn["path"], "unsafe_fn": fn.get("unsafe")})
            # safe TryFrom<view> for &str must contain a checked conversion
            if "TryFrom" in (fn.get("impl_trait") or "") and "str" in (fn.get("impl_self") or ""):
                cps = [mir.callee_path(t) or "" for _, t in body.calls()]
                ck.ob("U-tryfrom-checks", key, any(c.endswith("from_utf8") or c.endswith("from_utf8_mut") for c in cps),
                      "%s converts to str without from_utf8" % fn["path"])
        # ---- enum conversions ---------------------------------------------------------------------
        it, isf = fn.get("impl_trait") or "", fn.get("impl_self") or ""
        if it == "std::convert::From" and fn["name"] == "from" and any(x in fn["span"] for x in ("/option.rs", "/result.rs")):
            n_enum += 1
            src_ty = fn["inputs"][0]
            src_adt = src_ty.split("<")[0]
            variants = STD_ENUMS.get(src_adt)
            if variants is None and src_adt in adts:
                variants = {v["name"]: int(v["discr"]) for v in adts[src_adt]["variants"]}
            if not ck.require(variants is not None, "variants of %s" % src_adt):
                continue
            # semantic form: for every variant V of the source, the result is variant V of the target with payload field i moved to field i
            arg = ("sym", "arg")
            ev.hint(arg, src_adt)
            outs = ev.run(fn, [arg])
            if outs and not any(o.kind == "stuck" for o in outs):
                by_var = {}
                for o in outs:
                    vs = [c[2] for c in o.conds if c[0] == "discr" and c[1] == arg]
                    by_var.setdefault(vs[0] if vs else None, []).append(o)
                ck.ob("E-all-variants", key, sorted(k for k in by_var if k is not None) == sorted(variants) and None not in by_var,
                      "%s does not decide by the variant of its argument: cases %s, source has %s" % (fn["path"], sorted(map(str, by_var)), sorted(variants)))
                for vname, os_ in sorted((k, v) for k, v in by_var.items() if k is not None):
                    for o in os_:
                        r = sem.strip(o.ret) if o.kind == "ret" else ("?",)
                        ck.ob("E-variant-preserved", "%s/%s" % (key, vname), r[0] == "agg" and r[3] == vname,
                              "%s maps source variant `%s` to %s" % (fn["path"], vname, sem.fmt(o.ret) if o.kind == "ret" else o.kind), sample={"fn": fn["path"], "variant": vname})
                        if r[0] == "agg" and r[3] == vname:
                            for idx, x in enumerate(r[4]):
                                ck.ob("E-payload-moved", "%s/%s.%d" % (key, vname, idx), sem.strip(x) == ("pay", arg, vname, idx),
                                      "%s: payload %d of `%s` is %s, expected the moved payload of the same source variant" % (fn["path"], idx, vname, sem.fmt(x)))
                        ck.ob("E-no-calls", "%s/%s" % (key, vname), not [e for e in o.effects if e[0] in ("call", "icall", "drop")],
                              "%s calls functions or drops a payload while converting `%s`: %s" % (fn["path"], vname, o))
                continue
            # the switch on the argument's discriminant
            sw = [(i, body.blocks[i]["t"]) for i in sorted(live) if body.blocks[i]["t"]["k"] == "switch"]
            ok_sw = len(sw) == 1 and body.origin_operand(sw[0][1]["o"]) == ("discr", ("arg", 1))
            ck.ob("E-single-discr-switch", key, ok_sw, "%s does not dispatch on exactly one discriminant read of its argument" % fn["path"])
            if not ok_sw:
                continue
            arm = mir.enum_arms(body, (sw[0][0], None, {int(v): bb for v, bb in sw[0][1]["targets"]}, sw[0][1]["otherwise"]), nvariants=len(variants))
            built = {}
            for i in sorted(live):
                for s in body.blocks[i]["s"]:
                    if s["k"] == "assign" and s["r"]["k"] == "agg" and s["r"].get("ak") == "adt" and not s["p"]["p"] and s["p"]["l"] == 0:
                        built.setdefault(s["r"]["variant"], []).append((i, s["r"]))
            ck.ob("E-all-variants", key, sorted(built) == sorted(variants) and all(len(v) == 1 for v in built.values()),
                  "%s builds variants %s, source has %s" % (fn["path"], sorted(built), sorted(variants)))
            for vname, lst in built.items():
                bi, agg = lst[0]
                want_bb = arm.get(variants.get(vname, -1))
                ck.ob("E-variant-preserved", "%s/%s" % (key, vname), want_bb is not None and body.dominates(want_bb, bi),
                      "%s builds `%s` on the arm of a different source variant" % (fn["path"], vname), sample={"fn": fn["path"], "variant": vname})
                for idx, op in enumerate(agg["ops"]):
                    o = body.origin_operand(op)
                    want = ("field", ("downcast", ("arg", 1), vname), str(idx))
                    ck.ob("E-payload-moved", "%s/%s.%d" % (key, vname, idx), o == want and "m" in op,
                          "%s: payload %d of `%s` is %s, expected the moved payload of the same source variant" % (fn["path"], idx, vname, mir.fmt(o)))
            ck.ob("E-no-calls", key, not body.calls(), "%s calls functions while converting (payload could be cloned or dropped)" % fn["path"])
        if it == "std::convert::From" and fn["name"] == "from" and "/tuple.rs" in fn["span"]:
            n_tup += 1
            arg = ("sym", "arg")
            outs = ev.run(fn, [arg])
            if len(outs) == 1 and outs[0].kind == "ret":
                r = sem.strip(outs[0].ret)
                src = isf.split("<")[0]
                n_in = len(adts[src]["variants"][0]["fields"]) if src in adts else None
                src_ty = fn["inputs"][0].split("<")[0]
                if n_in is None and src_ty in adts:
                    n_in = len(adts[src_ty]["variants"][0]["fields"])
                ok_shape = r[0] == "agg" and (n_in is None or len(r[4]) == n_in)
                ck.ob("T-arity", key, ok_shape, "%s drops or adds tuple elements: %s" % (fn["path"], sem.fmt(outs[0].ret)))
                if r[0] == "agg":
                    for idx, x in enumerate(r[4]):
                        x = sem.strip(x)
                        ck.ob("T-field-preserved", "%s.%d" % (key, idx), x[0] == "fld" and x[1] == arg and x[2] == idx,
                              "%s: element %d is %s, expected element %d of the argument" % (fn["path"], idx, sem.fmt(x), idx), sample={"fn": fn["path"], "elem": idx})
                ck.ob("T-no-calls", key, not [e for e in outs[0].effects if e[0] in ("call", "icall", "drop")], "%s is not a plain field shuffle: %s" % (fn["path"], outs[0]))
                continue
            ret = None
            for i in sorted(live):
                for s in body.blocks[i]["s"]:
                    if s["k"] == "assign" and s["r"]["k"] == "agg" and not s["p"]["p"] and s["p"]["l"] == 0:
                        ret = s["r"]
            if not ck.require(ret is not None, "aggregate returned by %s" % fn["path"]):
                continue
            for idx, op in enumerate(ret["ops"]):
                o = body.origin_operand(op)
                ck.ob("T-field-preserved", "%s.%d" % (key, idx), o == ("field", ("arg", 1), str(idx)) and "m" in op,
                      "%s: element %d is %s, expected element %d of the argument" % (fn["path"], idx, mir.fmt(o), idx), sample={"fn": fn["path"], "elem": idx})
            n_in = len(adts[isf.split("<")[0]]["variants"][0]["fields"]) if isf.split("<")[0] in adts else len(ret["ops"])
            ck.ob("T-arity", key, len(ret["ops"]) == n_in or isf.startswith("("), "%s drops or adds tuple elements" % fn["path"])
            ck.ob("T-no-calls", key, not body.calls() and not has_switch(body), "%s is not a plain field shuffle" % fn["path"])
    # ---- helper methods of COption / CResult: variant and payload preserved, payload moved exactly once ------------------------------
    n_help = 0
    for fn in fns:
        adt = fn.get("impl_self_adt")
        if adt not in ("cglue::option::COption", "cglue::result::CResult") or fn.get("impl_trait") or fn["name"] not in ("take", "unwrap", "ok", "is_some", "is_ok", "is_err", "as_ref", "as_mut"):
            continue
        n_help += 1
        key = fn["path"]
        nm = fn["name"]
        me = ("sym", "self")
        ev.hint(me, adt)
        outs = ev.run(fn, [me])
        vs = [v["name"] for v in adts[adt]["variants"]]
        first, second = ("Some", "None") if adt.endswith("COption") else ("Ok", "Err")
        if not outs or any(o.kind == "stuck" for o in outs):
            ck.ob("H-helper-summarised", key, False, "%s could not be summarised: %s" % (key, outs))
            continue
        for o in outs:
            var = [c[2] for c in o.conds if c[0] == "discr" and c[1] == me]
            var = var[0] if var else None
            pay = ("pay", me, var, 0)
            calls = [e for e in o.effects if e[0] in ("call", "icall") and "::panicking::" not in e[1] and not e[1].endswith(("panic_fmt", "begin_panic")) and "fmt::" not in e[1]]
            pay_drops = [e for e in o.effects if e[0] == "drop" and sem.contains(e[1], lambda x: x == pay)]
            r = sem.strip(o.ret) if o.kind == "ret" else ("panic",)
            okk = True
            if nm in ("is_some", "is_ok"):
                okk = r == ("const", 1 if var == first else 0) and not calls
            elif nm == "is_err":
                okk = r == ("const", 1 if var == "Err" else 0) and not calls
            elif nm == "unwrap":
                okk = (var == first and sem.strip(r) == pay and not pay_drops) or (var != first and o.kind == "panic") or \
                      (adt.endswith("CResult") and (o.kind == "panic" or r[0] == "opq"))      # CResult::unwrap delegates to Result::unwrap (std)
            elif nm == "ok":
                okk = (var == "Ok" and sem.variant_of(r) == "Some" and sem.strip(r[4][0]) == pay and not pay_drops) or (var == "Err" and sem.variant_of(r) == "None")
            elif nm == "take":
                after = sem.strip(ev._read(o.state, ("ext", me), ()))
                emptied = sem.variant_of(after) == "None"
                if var == "Some":
                    # the payload leaves through the return value only: not read twice, not dropped in place
                    reads = [e for e in calls if e[1].split("::")[-1] in ("read", "read_unaligned", "copy", "copy_nonoverlapping", "clone")]
                    anyd = [e for e in o.effects if e[0] == "drop" and (sem.contains(e[1], lambda x: x == pay) or sem.contains(e[1], lambda x: x == me) or sem.strip(e[1]) == me)]
                    okk = emptied and sem.variant_of(r) == "Some" and sem.strip(r[4][0]) == pay and not reads and not anyd
                else:
                    okk = emptied and sem.variant_of(r) == "None"
            elif nm in ("as_ref", "as_mut"):
                if var == first:
                    inner = sem.strip(r[4][0]) if r[0] == "agg" and r[4] else ("?",)
                    okk = sem.variant_of(r) == first and ((inner[0] == "ref" and inner[1] == ("ext", me)) or inner == pay) and not calls
                else:
                    okk = (sem.variant_of(r) == second) and not calls
            ck.ob("H-helper-preserves-variant-and-payload", "%s/%s" % (key, var), okk,
                  "%s on `%s`: %s" % (key, var, o), sample={"fn": key, "case": var})
    ck.floor("COption/CResult helper methods", n_help, 8)
    # ---- call sites of "from raw parts" helpers: the pointer and the length handed over belong to one argument / one view --------
    for fn in fns:
        if not parts_helpers:
            break
        body = mir.Body(fn)
        for bi, t in body.calls():
            names = {mir.callee_path(t), mir.callee_res(t)}
            hit = [h for h in parts_helpers if h in names]
            if not hit:
                continue
            pi, li = parts_helpers[hit[0]]
            a0 = body.origin_operand(t["args"][pi - 1])
            a1 = body.origin_operand(t["args"][li - 1])
            d, l = ptr_src(a0), len_src(a1)
            ok = d is not None and l is not None and d[0] == l[0] and d[1] == l[1] and d[1][0] == "arg"
            n_ctor += 1
            ck.ob("S-ctor-ptr-len", "%s/via-%s" % (fn["path"], hit[0].split("::")[-1]), ok,
                  "%s (%s) calls the parts helper %s with (%s, %s): not the pointer and length of one and the same argument"
                  % (fn["path"], fn["span"], hit[0], mir.fmt(a0), mir.fmt(a1)),
                  sample={"fn": fn["path"], "helper": hit[0], "data": mir.fmt(a0), "len": mir.fmt(a1)})
            ck.ob("S-no-length-branch", fn["path"], not has_switch(body), "%s branches while building a slice view (length-dependent behaviour)" % fn["path"])
    ck.floor("slice view constructors", n_ctor, 3)
    ck.floor("from_raw_parts conversions in slice.rs", n_back, 3)
    ck.floor("utf-8 conversion sites", n_utf, 6)
    ck.floor("enum From impls", n_enum, 4)
    ck.floor("tuple From impls", n_tup, 8)
    # writes land in the original buffer: DerefMut and as_slice_mut exist and were checked above
    names = {fn["path"] for fn in fns}
    for need in ("cglue::slice::CSliceMut::<'a, T>::as_slice_mut", "<cglue::slice::CSliceMut<'a, T> as std::ops::DerefMut>::deref_mut"):
        ck.require(need in names, "function %s" % need)
