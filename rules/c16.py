"""C16 -- runtime types keep the C layout published in the headers.

Compiler-computed layouts of monomorphic instantiations (rustc `layout_of`) are compared with three published
oracles: (1) the layout the property states, (2) examples/pregen-headers/bindings.h, (3) the struct patterns and C
snippets hard-coded in cglue-bindgen (string constants read from its MIR).
"""
import os, re
from lib import corpus, facts, report, model

PTR = "ptr"
USZ = "usize"


def fn(n, ret=None):
    return ("fn", n, ret)


# (1) the layout published by the property statement / README: field name, coarse C kind
PUBLISHED = {
    "CBox_u64": ("cglue::boxed::CBox", [("instance", PTR), ("drop_fn", fn(1))]),
    "CBox_void": ("cglue::boxed::CBox", [("instance", PTR), ("drop_fn", fn(1))]),
    "CSliceBox_u64": ("cglue::boxed::CSliceBox", [("instance", ("struct", "cglue::slice::CSliceMut")), ("drop_fn", fn(1))]),
    "CArc_u64": ("cglue::arc::CArc", [("instance", PTR), ("clone_fn", fn(1, PTR)), ("drop_fn", fn(1))]),
    "CArc_void": ("cglue::arc::CArc", [("instance", PTR), ("clone_fn", fn(1, PTR)), ("drop_fn", fn(1))]),
    "CArcSome_u64": ("cglue::arc::CArcSome", [("instance", PTR), ("clone_fn", fn(1, PTR)), ("drop_fn", fn(1))]),
    "CArcSome_void": ("cglue::arc::CArcSome", [("instance", PTR), ("clone_fn", fn(1, PTR)), ("drop_fn", fn(1))]),
    "CSliceRef_u8": ("cglue::slice::CSliceRef", [("data", PTR), ("len", USZ)]),
    "CSliceRef_u64": ("cglue::slice::CSliceRef", [("data", PTR), ("len", USZ)]),
    "CSliceMut_u8": ("cglue::slice::CSliceMut", [("data", PTR), ("len", USZ)]),
    "CSliceMut_u64": ("cglue::slice::CSliceMut", [("data", PTR), ("len", USZ)]),
    "CVec_u8": ("cglue::vec::CVec", [("data", PTR), ("len", USZ), ("capacity", USZ), ("drop_fn", fn(3)), ("reserve_fn", fn(2, USZ))]),
    "CVec_u64": ("cglue::vec::CVec", [("data", PTR), ("len", USZ), ("capacity", USZ), ("drop_fn", fn(3)), ("reserve_fn", fn(2, USZ))]),
    "Callback": ("cglue::callback::Callback", [("context", PTR), ("func", fn(2, "bool"))]),
    "CIterator": ("cglue::iter::CIterator", [("iter", PTR), ("func", fn(2, "i32"))]),
    "TraitObj": ("cglue::trait_group::CGlueTraitObj", [("vtbl", PTR), ("container", ("struct", "cglue::trait_group::CGlueObjContainer"))]),
    "TraitObjArc": ("cglue::trait_group::CGlueTraitObj", [("vtbl", PTR), ("container", ("struct", "cglue::trait_group::CGlueObjContainer"))]),
    "Container": ("cglue::trait_group::CGlueObjContainer", [("instance", ("struct", "cglue::boxed::CBox")), ("context", "zst"), ("ret_tmp", "zst")]),
}
# parameter kinds of the functions stored in the runtime types, as the published C declarations have them: a foreign caller passes
# exactly these (a struct by value instead of by pointer, or the lengths in another order, is a different calling convention)
FN_PARAMS = {
    ("cglue::boxed::CBox", "drop_fn"): [PTR],
    ("cglue::boxed::CSliceBox", "drop_fn"): [PTR],
    ("cglue::arc::CArc", "clone_fn"): [PTR], ("cglue::arc::CArc", "drop_fn"): [PTR],
    ("cglue::arc::CArcSome", "clone_fn"): [PTR], ("cglue::arc::CArcSome", "drop_fn"): [PTR],
    ("cglue::vec::CVec", "drop_fn"): [PTR, USZ, USZ], ("cglue::vec::CVec", "reserve_fn"): [PTR, USZ],
    ("cglue::iter::CIterator", "func"): [PTR, PTR],
}
ENUMS = {
    "COption_u8": ("cglue::option::COption", [("None", 0), ("Some", 1)]),
    "COption_u64": ("cglue::option::COption", [("None", 0), ("Some", 1)]),
    "CResult_u8_u64": ("cglue::result::CResult", [("Ok", 0), ("Err", 1)]),
    "CResult_u64_u8": ("cglue::result::CResult", [("Ok", 0), ("Err", 1)]),
}
TRANSPARENT = {
    "OpaqueCallback": ("cglue::callback::OpaqueCallback", "cglue::callback::Callback"),
    "ReprCString": ("cglue::repr_cstring::ReprCString", None),
    "ReprCStr": ("cglue::repr_cstring::ReprCStr", None),
    "Fwd": ("cglue::forward::Fwd", None),
}


def unwrap_option(sh):
    """Option<fnptr>/Option<&T> with null-pointer optimisation -> the inner shape, flagged nullable."""
    if sh.get("k") == "enum" and sh.get("path") in ("std::option::Option", "core::option::Option"):
        vs = sh.get("variants") or []
        if len(vs) == 2 and vs[1]["fields"]:
            inner = vs[1]["fields"][0]["shape"]
            if inner.get("size") == sh.get("size"):
                return inner, True
    return sh, False


def kind_of(sh):
    inner, nullable = unwrap_option(sh)
    k = inner.get("k")
    if k in ("ptr", "ref"):
        return PTR
    if k == "fnptr":
        out = inner["output"]
        ok = kind_of(out) if not (out.get("k") == "tuple" and out.get("n") == 0) else None
        return ("fn", len(inner["inputs"]), ok, inner.get("abi"))
    if k == "uint" and inner.get("name") == "usize":
        return USZ
    if k in ("uint", "int"):
        return inner.get("name")
    if k == "bool":
        return "bool"
    if k in ("struct", "enum", "union"):
        if inner.get("size") == 0:
            return "zst"
        return ("struct", inner.get("path"))
    if k == "tuple" and inner.get("n") == 0:
        return "zst"
    return k


def fld_shape(sh, name):
    for v in sh.get("variants", [])[:1]:
        for f in v["fields"]:
            if f["name"] == name:
                return f["shape"]
    return {}


def c_offsets(fields):
    off = 0
    out = []
    for f in fields:
        a = f["shape"].get("align", 1)
        s = f["shape"].get("size", 0)
        off = (off + a - 1) // a * a
        out.append(off)
        off += s
    return out


def struct_fields(sh, drop_zst_phantom=True):
    fs = sh["variants"][0]["fields"]
    if drop_zst_phantom:
        fs = [f for f in fs if not (f["shape"].get("phantom") and f["name"].startswith("_"))]
    return fs


# ---- C header parsing ---------------------------------------------------------------------------------

def parse_c_structs(text):
    """typedef struct NAME { ... } NAME;  ->  {NAME: [(field, kind)]} ; kind = ptr | fn(n) | value:<type> | int"""
    out = {}
    for m in re.finditer(r"typedef struct (\w+) \{\n(.*?)\n\} (\w+);", text, re.S):
        name, body = m.group(1), m.group(2)
        body = re.sub(r"/\*.*?\*/", "", body, flags=re.S)
        fields = []
        for decl in body.split(";"):
            d = " ".join(decl.split())
            if not d:
                continue
            fm = re.match(r"^(.*?)\(\*(\w+)\)\((.*)\)$", d)
            if fm:
                args = fm.group(3).strip()
                n = 0 if args in ("", "void") else len(split_args(args))
                ret = fm.group(1).strip()
                fields.append((fm.group(2), ("fn", n, None if ret == "void" else ret)))
                continue
            vm = re.match(r"^(.*?)(\**)\s*(\w+)$", d)
            if vm:
                ty = vm.group(1).strip()
                if vm.group(2) or ty.endswith("*"):
                    fields.append((vm.group(3), PTR))
                else:
                    fields.append((vm.group(3), ("value", ty)))
        out[name] = fields
    return out


def split_args(s):
    depth = 0
    cur = ""
    out = []
    for ch in s:
        if ch == "(":
            depth += 1
        elif ch == ")":
            depth -= 1
        if ch == "," and depth == 0:
            out.append(cur)
            cur = ""
        else:
            cur += ch
    if cur.strip():
        out.append(cur)
    return out


def str_consts(o, out):
    if isinstance(o, dict):
        if isinstance(o.get("str"), str):
            out.append(o["str"])
        for v in o.values():
            str_consts(v, out)
    elif isinstance(o, list):
        for v in o:
            str_consts(v, out)


def unescape_regex(s):
    return re.sub(r"\\([(){}*\[\].])", r"\1", s)


def run(tier):
    ck = report.Check("C16", tier, level="proof")
    cf = corpus.corpus_facts(tier)
    ck.unit("corpus-%s layout probes (monomorphic instantiations of cglue runtime types)" % tier)
    probes = {p["name"][3:]: p for p in cf.probes() if p["name"].startswith("LY_")}
    cl = facts.cfg_cglue(features="task,futures")
    lib_adts = {a["path"]: a for a in cl.adts("cglue-lib")}
    ck.unit("cglue lib (task,futures)")

    # ---- (1) published table vs compiler layout ----------------------------------------------------
    for pn, (path, fields) in sorted(PUBLISHED.items()):
        p = probes.get(pn)
        if not ck.require(p is not None and "shape" in p, "layout probe LY_%s" % pn):
            continue
        sh = p["shape"]
        key = "published/%s" % pn
        ck.ob("P-path", key, sh.get("path") == path, "%s is %s, expected %s" % (pn, sh.get("path"), path))
        ck.ob("P-repr", key, "C" in sh.get("repr", []), "%s is not repr(C): %s" % (path, sh.get("repr")))
        fs = struct_fields(sh)
        names = [f["name"] for f in fs]
        want = [n for n, _ in fields]
        ck.ob("P-field-order", key, names == want,
              "%s fields are %s but the published C struct is %s" % (path, names, want), sample={"type": p["ty"], "fields": names})
        offs = [f.get("off") for f in struct_fields(sh, drop_zst_phantom=False)]
        ck.ob("P-offsets", key, offs == c_offsets(struct_fields(sh, drop_zst_phantom=False)),
              "%s: compiler offsets %s differ from C declaration-order offsets" % (path, offs), sample={"type": p["ty"], "offsets": offs})
        for (n, k), f in zip(fields, fs):
            got = kind_of(f["shape"])
            if isinstance(k, tuple) and k[0] == "fn":
                ok = isinstance(got, tuple) and got[0] == "fn" and got[1] == k[1] and (got[2] == k[2] or (k[2] is None and got[2] is None)) \
                    and str(got[3]).startswith("C")
            else:
                ok = got == k
            if (path, n) in FN_PARAMS:
                inner, _ = unwrap_option(f["shape"])
                got_params = [kind_of(x) for x in inner.get("inputs", [])] if inner.get("k") == "fnptr" else None
                ck.ob("P-fn-param-kinds", "%s.%s" % (key, n), got_params == FN_PARAMS[(path, n)],
                      "%s.%s takes %s; the published declaration passes %s" % (path, n, got_params, FN_PARAMS[(path, n)]), sample={"field": n, "params": FN_PARAMS[(path, n)]})
            ck.ob("P-field-kind", "%s.%s" % (key, n), ok,
                  "%s.%s has C kind %s, published %s (%s)" % (path, n, got, k, f["shape"].get("ty")),
                  sample={"field": path + "." + n, "kind": str(got)})
    for pn, (path, variants) in sorted(ENUMS.items()):
        p = probes.get(pn)
        if not ck.require(p is not None and "shape" in p, "layout probe LY_%s" % pn):
            continue
        sh = p["shape"]
        got = [(v["name"], int(v["discr"]) if v["discr"] is not None else None) for v in sh["variants"]]
        ck.ob("P-enum-tags", "published/%s" % pn, got == variants and "C" in sh["repr"],
              "%s tags are %s (repr %s), published %s" % (path, got, sh["repr"], variants), sample={"type": p["ty"], "tags": got})
    for pn, (path, inner) in sorted(TRANSPARENT.items()):
        p = probes.get(pn)
        if not ck.require(p is not None and "shape" in p, "layout probe LY_%s" % pn):
            continue
        sh = p["shape"]
        fs = [f for f in sh["variants"][0]["fields"] if f["shape"].get("size", 1) != 0]
        ok = "transparent" in sh["repr"] and len(fs) == 1 and fs[0]["shape"].get("size") == sh.get("size")
        if inner:
            ok = ok and fs[0]["shape"].get("path") == inner
        ck.ob("P-transparent", "published/%s" % pn, ok, "%s is not a transparent wrapper of %s: repr=%s" % (path, inner or "one field", sh["repr"]))
    # generic declarations agree with the monomorphic probes (field order is per definition, not per instance)
    for pn, (path, fields) in sorted(PUBLISHED.items()):
        a = lib_adts.get(path)
        if not ck.require(a is not None, "ADT %s in cglue" % path):
            continue
        names = [n for n, f in model.adt_fields(a) if not (model.is_phantom(f) and n.startswith("_"))]
        ck.ob("P-decl-order", "decl/%s" % path, names == [n for n, _ in fields], "%s declares %s" % (path, names))

    # ---- (2) bindings.h vs plugin-api / cglue types ----------------------------------------------------
    hp = os.path.join(facts.REPO, "examples", "pregen-headers", "bindings.h")
    if ck.require(os.path.exists(hp), "examples/pregen-headers/bindings.h"):
        structs = parse_c_structs(open(hp).read())
        ck.unit("examples/pregen-headers/bindings.h (%d structs parsed)" % len(structs))
        ex = facts.cfg_examples()
        ck.unit("examples/plugin-api")
        ex_adts = {a["name"]: a for a in ex.adts("plugin_api-staticlib")}
        ex_adts.update({a["name"]: a for a in cl.adts("cglue-lib") if a["name"] in ("CloneVtbl",)})
        lib_by_name = {a["name"]: a for a in cl.adts("cglue-lib") if a["path"].count("::") == 2}
        n_hdr = 0
        for cname, cfields in sorted(structs.items()):
            base = cname.split("_")[0]
            adt = lib_by_name.get(base) or ex_adts.get(base)
            if adt is None:
                continue
            n_hdr += 1
            rf = []
            for n, f in model.adt_fields(adt):
                if model.is_phantom(f):
                    continue
                # the header post-processor deletes zero-sized RetTmp fields (PhantomData typedefs)
                if n.startswith("ret_tmp") and cname.split("_")[0].endswith("Container") and not any(c[0] == n for c in cfields):
                    continue
                rf.append((n, f))
            # cbindgen names tuple-struct fields _0, _1, ...
            rf = [("_" + n if n.isdigit() else n, f) for n, f in rf]
            rnames = [n for n, _ in rf]
            cnames = [n for n, _ in cfields]
            ck.ob("H-field-order", "header/%s" % cname, rnames == cnames,
                  "header struct %s has fields %s but Rust %s declares %s" % (cname, cnames, adt["path"], rnames),
                  sample={"c": cname, "fields": cnames})
            if rnames == cnames:
                for (n, f), (_, ck_) in zip(rf, cfields):
                    sh = f["shape"]
                    got = kind_of(sh)
                    if isinstance(ck_, tuple) and ck_[0] == "fn":
                        ok = isinstance(got, tuple) and got[0] == "fn" and got[1] == ck_[1] and ((got[2] is None) == (ck_[2] is None))
                        ck.ob("H-fn-arity", "header/%s.%s" % (cname, n), ok,
                              "header %s.%s is a function pointer with %d parameters (returns %s); Rust field is %s" % (cname, n, ck_[1], ck_[2], f["ty"]))
                    elif ck_ == PTR and sh.get("k") not in ("param", "alias"):
                        ck.ob("H-kind", "header/%s.%s" % (cname, n), got == PTR, "header %s.%s is a pointer; Rust field is %s" % (cname, n, f["ty"]))
        ck.floor("header structs matched to Rust ADTs", n_hdr, 18)

    # ---- (2b) what the stored functions of a vector do with their positional parameters ---------------------------------------
    # the published contract is drop_fn(data, len, capacity) / reserve_fn(vec, additional): the Rust side must read them in that order
    from rules import c11
    c11.check_stored_fn_positions(ck, cl)
    # ---- (2c) the published protocols: "next returns 0 for an item" (any other code ends the iteration, the slot is written only for an
    # item and never read before), "an arc's clone is whatever its clone function returns"
    from rules import c15, c10
    c15.check_all(report.Only(ck, ("I-",)), tier)
    c10.check_all(report.Only(ck, ("B-clone-through-stored-fn", "A-constructor-stores-both-fns")), tier)

    # ---- (3) cglue-bindgen hard-coded patterns ------------------------------------------------------------
    bf = facts.cfg_bindgen()
    ck.unit("cglue-bindgen (string constants from MIR)")
    consts = {}
    for f in bf.fns():
        out = []
        str_consts(f["body"], out)
        for p in f.get("promoted", []):
            str_consts(p, out)
        if out:
            consts[f["path"]] = out
    n_pat = 0
    by_name = {a["name"]: a for a in cl.adts("cglue-lib") if a["path"].count("::") == 2}
    for fpath, strs in sorted(consts.items()):
        for s in strs:
            u = unescape_regex(s)
            for m in re.finditer(r"struct (\w+)\)? \{\n(.*?)\n\};", u, re.S):
                name, body = m.group(1), m.group(2)
                adt = by_name.get(name)
                if adt is None:
                    continue
                body = re.sub(r"\(\?P<\w+>", "", body).replace(")\n", "\n")
                decls = []
                for d in body.split(";"):
                    d = " ".join(d.split()).rstrip(")")
                    if not d:
                        continue
                    fm = re.match(r"^.*?\(\*(\w+)\)\(.*$", d)
                    if fm:
                        decls.append(fm.group(1))
                        continue
                    vm = re.match(r"^.*?(\w+)$", d)
                    if vm:
                        decls.append(vm.group(1))
                rn = [n for n, f in model.adt_fields(adt) if not (model.is_phantom(f) and n.startswith("_"))]
                n_pat += 1
                ck.ob("B-struct-pattern", "bindgen/%s/%s" % (fpath.split("::")[-1], name), decls == rn[:len(decls)] and len(decls) >= min(2, len(rn)),
                      "cglue-bindgen pattern in %s expects `struct %s` fields %s, Rust declares %s" % (fpath, name, decls, rn),
                      sample={"pattern_struct": name, "fields": decls})
    ck.floor("bindgen struct patterns", n_pat, 4)
    snippets = {"cglue_bindgen::types::ContainerType::<'a>::get_map": "CBox", "cglue_bindgen::types::ContextType::<'a>::get_map": "CArc"}
    n_sn = 0
    for fpath, tname in snippets.items():
        strs = consts.get(fpath)
        if not ck.require(strs is not None, "string constants of %s" % fpath):
            continue
        adt = by_name[tname]
        rn = [n for n, f in model.adt_fields(adt)]
        for s in strs:
            ids = re.findall(r"(?:self->|ret\.)(\w+)", s)
            if not ids:
                continue
            n_sn += 1
            bad = [i for i in ids if i not in rn]
            ck.ob("B-snippet-fields", "bindgen/%s/%s" % (tname, re.sub(r"\W+", "_", s)[:40]), not bad,
                  "C snippet %r in %s uses fields %s that %s does not have (%s)" % (s, fpath, bad, tname, rn),
                  sample={"snippet": s, "type": tname})
            # call shapes: drop_fn(x) / clone_fn(x) take exactly one argument
            for fnname, args in re.findall(r"self->(\w+)\(([^()]*)\)", s):
                f = dict(model.adt_fields(adt)).get(fnname)
                if f is None:
                    continue
                k = kind_of(f["shape"])
                nargs = len([a for a in args.split(",") if a.strip()])
                ck.ob("B-snippet-arity", "bindgen/%s/%s" % (tname, fnname), isinstance(k, tuple) and k[0] == "fn" and k[1] == nargs,
                      "C snippet calls %s->%s with %d arguments; Rust field is %s" % (tname, fnname, nargs, f["ty"]))
    ck.floor("bindgen C snippets", n_sn, 3)
    return ck.finish(
        "compiler-computed layouts (rustc layout_of on monomorphic probes: field order, offsets, C kind of each field, fn-pointer arity/ABI, "
        "enum discriminants) compared with the layout the property publishes, with the checked-in C header, and with the struct patterns "
        "and C snippets hard-coded in cglue-bindgen",
        rule_text="obligation = one (type, clause) pair of the finite published table / header struct / bindgen pattern",
        trusted=["rustc layout_of and discriminant computation", "the C struct parser in rules/c16.py (typedef struct bodies only)"],
        exhaustive=True)
