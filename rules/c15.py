"""C15 -- callbacks and iterators deliver every item once, in order, until told to stop.

Loop-body invariance: in every feeding loop, each path from `next() = Some(v)` back to `next()` or out of the loop contains
exactly one OpaqueCallback::call receiving v by move (and, for feed, exactly one `cnt += 1` before it); the loop leaves on a
false result or exhaustion.  Trampolines deliver their argument exactly once.  CIterator's trampoline writes the slot only
for Some and returns 0 only then; next() reads the slot only when the code is 0.  Context and function are erased together.
"""
import re
from lib import facts, mir, report

CB = "cglue::callback::"
NEXT = "std::iter::Iterator::next"
CALL = CB + "OpaqueCallback::<'a, T>::call"


def cp(t):
    return mir.callee_path(t) or ""


def loop_paths(body, start, header, limit=200):
    """Acyclic paths from `start` until the loop header is reached again ('back') or a block that cannot reach the header ('exit')."""
    out = []
    stack = [(start, [start])]
    while stack:
        b, path = stack.pop()
        if b == header:
            out.append(("back", path))
            continue
        if not body.reaches(b, header):
            out.append(("exit", path))
            continue
        succ = body.succ(b)
        if not succ:
            out.append(("exit", path))
            continue
        for s in succ:
            if s in path and s != header:
                continue
            stack.append((s, path + [s]))
        if len(out) > limit:
            raise RuntimeError("too many loop paths")
    return out


def check_feed_loop(ck, fn, counting):
    body = mir.Body(fn)
    key = fn["path"]
    nexts = [(i, t) for i, t in body.calls() if cp(t) == NEXT and body.in_cycle(i)]
    if not ck.ob("L-one-next-in-loop", key, len(nexts) == 1, "%s: expected exactly one Iterator::next inside a loop, found %d" % (key, len(nexts))):
        return
    hb, ht = nexts[0]
    res_local = ht["d"]["l"]
    sws = [s for s in mir.discr_switches(body) if s[1] == ("discr", body.origin_local(res_local)) or (s[1][0] == "discr" and s[1][1][0] == "call" and s[1][1][1] == NEXT)]
    sws = [s for s in sws if body.dominates(hb, s[0])]
    arms = [(s, mir.enum_arms(body, s)) for s in sws]
    arms = [(s, a) for s, a in arms if set(a) == {0, 1}]
    if not ck.ob("L-dispatch-on-next", key, len(arms) >= 1, "%s does not match on the result of next()" % key):
        return
    sw, arm = arms[0]
    some_bb, none_bb = arm[1], arm[0]
    # None arm leaves the loop and never calls the callback
    none_blocks = mir.dominated(body, none_bb)
    ck.ob("L-exhaustion-exits", key, not body.reaches(none_bb, hb) and none_bb != hb, "%s keeps looping after the source is exhausted" % key)
    ck.ob("L-no-call-after-end", key, not any(cp(t) == CALL for _, t in mir.calls_in(body, none_blocks)),
          "%s invokes the callback after the source ended" % key)
    paths = loop_paths(body, some_bb, hb)
    call_blocks = {i for i, t in body.calls() if cp(t) == CALL}
    payload = ("field", ("downcast", body.origin_local(res_local), "Some"), "0")
    cnt_local = None
    if counting:
        o = None
        # returned local: `_0 = copy cnt`
        d0 = body.defs().get(0, [])
        if len(d0) == 1 and d0[0][2] == "rv" and d0[0][3]["k"] == "use":
            pl = d0[0][3]["o"].get("c") or d0[0][3]["o"].get("m")
            if pl and not pl["p"]:
                cnt_local = pl["l"]
        ck.ob("L-returns-counter", key, cnt_local is not None, "%s does not return its counter variable" % key)
    inc_blocks = set()
    if cnt_local is not None:
        for d in body.defs().get(cnt_local, []):
            if d[2] == "rv":
                o = body.origin_rvalue(d[3])
                if o[0] == "const":
                    ck.ob("L-counter-starts-at-zero", key, o[1] == 0 and not body.in_cycle(d[0]), "%s: counter is initialised to %s or re-initialised in the loop" % (key, o[1]))
                else:
                    # cnt = (AddWithOverflow(cnt, 1)).0
                    s = mir.strip(o)
                    good = s[0] == "field" and s[2] == "0" and s[1][0] == "bin" and s[1][1].startswith("Add") and s[1][3] == ("const", 1, "usize")
                    ck.ob("L-counter-increment-by-one", key, good, "%s: counter update is %s, expected cnt + 1" % (key, mir.fmt(o)))
                    inc_blocks.add(d[0])
    for kind, path in paths:
        calls = [b for b in path if b in call_blocks]
        pk = "%s/path-%s-%s" % (key, kind, "-".join(map(str, path[:6])))
        ck.ob("L-one-call-per-item", pk, len(calls) == 1, "%s: a loop path (%s: blocks %s) delivers the item %d times" % (key, kind, path, len(calls)),
              sample={"fn": key, "path": path, "calls": len(calls)})
        if len(calls) == 1:
            t = body.blocks[calls[0]]["t"]
            a = body.origin_operand(t["args"][1])
            ck.ob("L-item-moved-into-call", pk, a == payload and "m" in t["args"][1], "%s passes %s to the callback instead of the item just produced" % (key, mir.fmt(a)))
            if counting:
                incs = [b for b in path if b in inc_blocks]
                ck.ob("L-count-before-call", pk, len(incs) == 1 and path.index(incs[0]) <= path.index(calls[0]),
                      "%s: on loop path %s the counter is incremented %d times / not before the call" % (key, path, len(incs)))
    # stopping condition: the callback's result is switched on; false (0) leaves the loop, true continues
    for cb in sorted(call_blocks):
        t = body.blocks[cb]["t"]
        nxt = t["t"]
        st = body.blocks[nxt]["t"] if nxt is not None else None
        ok = st is not None and st["k"] == "switch" and body.origin_operand(st["o"])[0] == "call" and body.origin_operand(st["o"])[1] == CALL
        if ok:
            tg = {int(v): bb for v, bb in st["targets"]}
            false_bb = tg.get(0)
            true_bb = st["otherwise"] if 1 not in tg else tg[1]
            ok = false_bb is not None and not body.reaches(false_bb, hb) and false_bb != hb and (true_bb == hb or body.reaches(true_bb, hb))
        ck.ob("L-stop-on-false", key, ok, "%s does not stop feeding exactly when the callback returns false" % key, sample={"fn": key})
    return len(paths)


def check_trampoline(ck, fn):
    """extern "C" fn(ctx, item) -> bool: the item is consumed by exactly one call on every path."""
    body = mir.Body(fn)
    key = fn["path"]
    uses = []
    for i, t in body.calls():
        for a in t["args"]:
            o = body.origin_operand(a)
            if mir.contains(o, lambda x: x == ("arg", 2)):
                uses.append((i, t))
                break
    ok = len(uses) == 1 and body.on_all_paths_to_return(uses[0][0]) and not body.in_cycle(uses[0][0])
    ck.ob("T-item-delivered-once", key, ok, "trampoline %s hands its item to %d calls (must be exactly one, on every path)" % (key, len(uses)),
          sample={"fn": key, "sink": cp(uses[0][1]) if uses else None})
    if not ok:
        return
    i, t = uses[0]
    # receiver is the context parameter
    recv = mir.strip(body.origin_operand(t["args"][0]))
    ck.ob("T-sink-is-context", key, recv == ("arg", 1), "trampoline %s delivers into %s instead of its own context" % (key, mir.fmt(recv)))
    ret = body.origin_local(0)
    good = (ret[0] == "call" and ret[3] == i) or ret == ("const", 1, "bool")
    ck.ob("T-result", key, good, "trampoline %s returns %s (must be the sink's verdict, or constant true for collecting sinks)" % (key, mir.fmt(ret)))
    sink = cp(t)
    if sink.endswith("Vec::<T, A>::push") or sink.endswith("::push"):
        ck.ob("T-vec-push-value", key, body.origin_operand(t["args"][1]) == ("arg", 2), "Vec trampoline pushes something else than the item")
    if sink.endswith("Extend::extend"):
        a = body.origin_operand(t["args"][1])
        ck.ob("T-extend-some-item", key, a[0] == "agg" and a[2] == "Some" and a[4][0] == ("arg", 2), "Extend trampoline extends with %s" % mir.fmt(a))


def run(tier):
    ck = report.Check("C15", tier, level="other")
    f = facts.cfg_cglue()
    ck.unit("cglue lib")
    fns = [x for x in f.fns("cglue-lib") if "/callback.rs" in x["span"] or "/iter.rs" in x["span"]]
    by = {x["path"]: x for x in fns}
    # ---- feeding loops --------------------------------------------------------------------------------
    n_loops = 0
    for fn in fns:
        body = mir.Body(fn)
        if any(cp(t) == NEXT and body.in_cycle(i) for i, t in body.calls()):
            counting = fn["output"] == "usize"
            n_loops += 1
            check_feed_loop(ck, fn, counting)
    ck.floor("feeding loops", n_loops, 2)
    # the two feeding entry points are identified by what they implement; each must be a recognisable feeding loop
    # (accepted idiom: `for v in iter { [cnt += 1;] if !callback.call(v) { break } }`), otherwise count/stop behaviour is not established
    for fn in fns:
        is_feed = fn["name"] == "feed_into_mut" and (fn.get("impl_trait") or "").endswith("callback::FeedCallback")
        is_ext = fn["name"] == "extend" and fn.get("impl_trait") == "std::iter::Extend" and "OpaqueCallback" in (fn.get("impl_self") or "")
        if is_feed or is_ext:
            body = mir.Body(fn)
            has_loop = any(cp(t) == NEXT and body.in_cycle(i) for i, t in body.calls())
            direct = [(i, t) for i, t in body.calls() if cp(t) == CALL]
            ck.ob("L-feed-loop-shape", fn["path"], has_loop and len(direct) >= 1,
                  "%s (%s) is not a loop over `next()` that calls the callback itself (e.g. it delegates to iterator adapters): the rule cannot establish that every offered "
                  "item is counted and that feeding stops after the first `false`; accepted idiom: for v in iter { cnt += 1; if !callback.call(v) { break } }" % (fn["path"], fn["span"]),
                  sample={"fn": fn["path"]})
    # feed_into delegates
    fi = [x for x in fns if x["name"] == "feed_into" and x.get("of_trait")]
    for fn in fi:
        body = mir.Body(fn)
        o = body.origin_local(0)
        ck.ob("L-feed-into-delegates", fn["path"], o[0] == "call" and o[1].endswith("FeedCallback::feed_into_mut") and o[2][0] == ("arg", 1)
              and mir.strip(o[2][1]) == ("arg", 2), "feed_into does not forward (self, &mut callback) to feed_into_mut: %s" % mir.fmt(o))
    # ---- trampolines ---------------------------------------------------------------------------------------
    tramps = [x for x in fns if x.get("abi", "").startswith("C") and "/callback.rs" in x["span"]]
    ck.floor("callback trampolines", len(tramps), 3)
    for fn in tramps:
        check_trampoline(ck, fn)
    # ---- pairing: context and function erased together ------------------------------------------------
    n_pair = 0
    for fn in fns:
        body = mir.Body(fn)
        for i in sorted(body.live_blocks()):
            for s in body.blocks[i]["s"]:
                if s["k"] != "assign" or s["r"]["k"] != "agg":
                    continue
                adt = s["r"].get("adt")
                if adt == CB + "Callback":
                    ops = dict(zip(s["r"]["fields"], [body.origin_operand(o) for o in s["r"]["ops"]]))
                    n_pair += 1
                    fo = ops["func"]
                    while fo[0] == "cast":
                        fo = fo[2]
                    co = mir.strip(ops["context"])
                    while co[0] == "cast":
                        co = mir.strip(co[2])
                    if fo[0] == "fnconst":
                        # the trampoline's first parameter type, instantiated with the generic arguments given here,
                        # must be the type of the context it is paired with
                        ctx_ty = body.locals[co[1]]["ty"] if co[0] == "arg" else None
                        tf = by.get(fo[1])
                        targ = None
                        if tf is not None:
                            targ = tf["inputs"][0]
                            names = [g for g, k in tf["generics"] if k != "lt"]
                            for nm, val in zip(names, fo[2][1]):
                                targ = re.sub(r"\b%s\b" % re.escape(nm), "\x00" + val + "\x01", targ)
                            targ = targ.replace("\x00", "").replace("\x01", "")
                        norm = lambda x: re.sub(r"'\w+ ", "", x or "")
                        ok = co[0] == "arg" and targ is not None and norm(ctx_ty) == norm(targ)
                        ck.ob("P-pair-same-type", fn["path"], ok, "%s pairs context %s with trampoline instantiated at %s" % (fn["path"], ctx_ty, targ),
                              sample={"fn": fn["path"], "context": ctx_ty, "trampoline_arg": targ})
                    else:
                        # into_opaque / new: both fields come from the same source value / the two parameters
                        same = (fo[0] == "field" and co[0] == "field" and fo[1] == co[1] and fo[2] == "func" and co[2] == "context") or \
                               (fo[0] == "arg" and co[0] == "arg")
                        ck.ob("P-pair-same-source", fn["path"], same, "%s builds a Callback from context=%s and func=%s (different sources)" % (fn["path"], mir.fmt(co), mir.fmt(fo)))
                if adt == CB + "OpaqueCallback":
                    o = body.origin_operand(s["r"]["ops"][0])
                    ck.ob("P-opaque-from-into-opaque", fn["path"], o[0] == "call" and o[1].endswith("Callback::<'a, T, F>::into_opaque"),
                          "%s builds an OpaqueCallback from %s" % (fn["path"], mir.fmt(o)))
    ck.floor("Callback constructions", n_pair, 5)
    # OpaqueCallback::call: func and context of the same pair, argument forwarded
    for name in (CALL, "<cglue::callback::OpaqueCallback<'_, T> as cglue::callback::Callbackable<T>>::call"):
        fn = by.get(name)
        if not ck.require(fn is not None, "function " + name):
            continue
        body = mir.Body(fn)
        ic = [(i, t) for i, t in body.calls() if t.get("callee") is None]
        ok = len(ic) == 1 and body.on_all_paths_to_return(ic[0][0])
        if ok:
            t = ic[0][1]
            fo = mir.strip(body.origin_operand(t["f"]))
            co = mir.strip(body.origin_operand(t["args"][0]))
            ao = body.origin_operand(t["args"][1])
            ok = fo[0] == "field" and fo[2] == "func" and co[0] == "field" and co[2] == "context" and mir.strip(fo[1]) == mir.strip(co[1]) and ao == ("arg", 2) \
                and body.origin_local(0)[0] == "icall"
        ck.ob("P-call-uses-own-pair", name, ok, "%s does not invoke its own func with its own context and the argument, returning the verdict" % name)

    # ---- CIterator -----------------------------------------------------------------------------------------
    tr = [x for x in fns if x.get("abi", "").startswith("C") and "/iter.rs" in x["span"]]
    ck.floor("iterator trampolines", len(tr), 1)
    for fn in tr:
        body = mir.Body(fn)
        key = fn["path"]
        nx = [(i, t) for i, t in body.calls() if cp(t) == NEXT]
        ok = len(nx) == 1 and body.on_all_paths_to_return(nx[0][0]) and not body.in_cycle(nx[0][0]) and mir.strip(body.origin_operand(nx[0][1]["args"][0])) == ("arg", 1)
        if not ck.ob("I-one-next", key, ok, "%s must advance its source exactly once per call" % key):
            continue
        sws = [s for s in mir.discr_switches(body) if s[1][0] == "discr" and s[1][1][0] == "call" and s[1][1][1] == NEXT and set(mir.enum_arms(body, s)) == {0, 1}]
        if not ck.ob("I-dispatch", key, len(sws) >= 1, "%s does not match on next()" % key):
            continue
        sw = sws[0]
        arm = mir.enum_arms(body, sw)
        some_b, none_b = mir.dominated(body, arm[1]), mir.dominated(body, arm[0])
        writes = [(i, t) for i, t in body.calls() if cp(t).endswith("::write")]
        good = len(writes) == 1 and writes[0][0] in some_b
        if good:
            t = writes[0][1]
            dst = mir.strip(body.origin_operand(t["args"][0]))
            while dst[0] == "call" and dst[1].endswith("as_mut_ptr"):
                dst = mir.strip(dst[2][0])
            good = dst == ("arg", 2) and body.origin_operand(t["args"][1]) == ("field", ("downcast", sw[1][1], "Some"), "0")
        ck.ob("I-write-only-for-item", key, good, "%s must write the yielded item (and only it) into `out` exactly on the Some arm" % key, sample={"fn": key})
        rs = {}
        for d in body.defs().get(0, []):
            if d[2] == "rv":
                o = body.origin_rvalue(d[3])
                arm = "some" if d[0] in some_b else ("none" if d[0] in none_b else "?")
                rs[arm] = o
        ck.ob("I-code-zero-iff-item", key, rs.get("some") == ("const", 0, "i32") and rs.get("none", ("x",))[0] == "const" and rs["none"][1] != 0 and "?" not in rs,
              "%s returns %s (must be 0 exactly when an item was written)" % (key, {k: mir.fmt(v) for k, v in rs.items()}))
    nf = by.get("<cglue::iter::CIterator<'a, T> as std::iter::Iterator>::next")
    if ck.require(nf is not None, "CIterator::next"):
        body = mir.Body(nf)
        key = nf["path"]
        ic = [(i, t) for i, t in body.calls() if t.get("callee") is None]
        ok = len(ic) == 1 and body.on_all_paths_to_return(ic[0][0]) and not body.in_cycle(ic[0][0])
        if ck.ob("I-next-one-call", key, ok, "CIterator::next must call the stored function exactly once"):
            t = ic[0][1]
            fo = mir.strip(body.origin_operand(t["f"]))
            io = mir.strip(body.origin_operand(t["args"][0]))
            so = mir.strip(body.origin_operand(t["args"][1]))
            ck.ob("I-next-own-pair", key, fo[0] == "field" and fo[2] == "func" and io[0] == "field" and io[2] == "iter" and mir.strip(fo[1]) == mir.strip(io[1]) == ("arg", 1),
                  "CIterator::next does not call its own func with its own iter")
            ai = [(i, tt) for i, tt in body.calls() if cp(tt).endswith("::assume_init")]
            sws = [z for z in mir.zero_tests(body) if z[1][0] == "icall"]
            good = len(sws) == 1 and len(ai) == 1
            if good:
                sw = sws[0]
                true_b = mir.dominated(body, sw[2])
                false_b = mir.dominated(body, sw[3])
                slot = mir.strip(body.origin_operand(ai[0][1]["args"][0]))
                good = ai[0][0] in true_b and slot == so and slot[0] == "call" and slot[1].endswith("MaybeUninit::<T>::uninit")
                for i in sorted(body.live_blocks()):
                    for s in body.blocks[i]["s"]:
                        if s["k"] == "assign" and s["r"]["k"] == "agg" and s["p"]["l"] == 0:
                            v = s["r"]["variant"]
                            ck.ob("I-next-variant-by-code", key + "/" + v, (v == "Some" and i in true_b) or (v == "None" and i in false_b),
                                  "CIterator::next builds %s on the wrong side of the `== 0` test" % v)
            ck.ob("I-next-reads-slot-only-on-zero", key, good, "CIterator::next must read the slot it passed, once, and only when the code is 0", sample={"fn": key})
    nw = by.get("cglue::iter::CIterator::<'a, T>::new")
    if ck.require(nw is not None, "CIterator::new"):
        body = mir.Body(nw)
        agg = None
        for i in sorted(body.live_blocks()):
            for s in body.blocks[i]["s"]:
                if s["k"] == "assign" and s["r"]["k"] == "agg" and s["r"].get("adt") == "cglue::iter::CIterator":
                    agg = s["r"]
        if ck.require(agg is not None, "CIterator aggregate in new"):
            ops = dict(zip(agg["fields"], [body.origin_operand(o) for o in agg["ops"]]))
            io = ops["iter"]
            # peel: &mut *unwrap(as_mut(cast(&raw mut *arg1)))
            seen_arg = mir.contains(io, lambda x: x == ("arg", 1))
            fo = ops["func"]
            while fo[0] == "cast":
                fo = fo[2]
            ok = seen_arg and fo[0] == "fnconst" and fo[2][1] and fo[2][1][0] == "I" and nw["inputs"][0].endswith("mut I")
            ck.ob("I-new-pairs-at-same-type", nw["path"], ok, "CIterator::new pairs the iterator pointer with a trampoline instantiated at %s" % (str(fo[2][1]) if fo[0] == "fnconst" else mir.fmt(fo),),
                  sample={"iter": mir.fmt(io)[:100], "func": fo[1] if fo[0] == "fnconst" else None})
    return ck.finish(
        "loop-body path rules on every feeding loop (FeedCallback::feed_into_mut, Extend for OpaqueCallback), exactly-once delivery rules on every "
        "extern \"C\" trampoline, pairing rules on every Callback/OpaqueCallback/CIterator construction, and arm rules on the iterator trampoline and "
        "CIterator::next; loop-body invariance gives the statement for every item sequence and stop position",
        rule_text="obligation = one (function or loop path, clause)",
        trusted=["behaviour of the wrapped iterator/closure itself is outside the property"])
