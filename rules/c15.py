"""C15 -- callbacks and iterators deliver every item once, in order, until told to stop.

Loop-body invariance: in every feeding loop, each path from `next() = Some(v)` back to `next()` or out of the loop contains
exactly one OpaqueCallback::call receiving v by move (and, for feed, exactly one `cnt += 1` before it); the loop leaves on a
false result or exhaustion.  Trampolines deliver their argument exactly once.  CIterator's trampoline writes the slot only
for Some and returns 0 only then; next() reads the slot only when the code is 0.  Context and function are erased together.
"""
import re
from lib import facts, mir, report, sem

CB = "cglue::callback::"
NEXT = "std::iter::Iterator::next"
CALL = CB + "OpaqueCallback::<'a, T>::call"


def cp(t):
    return mir.callee_path(t) or ""


def loop_paths(body, start, header, limit=200):
    """Acyclic paths from `start` until the loop header is reached again ('back') or a block that cannot reach the header ('exit')."""
    out = []
    stack = [(start, [start])]
    while stack:
        b, path = stack.pop()
        if b == header:
            out.append(("back", path))
            continue
        if not body.reaches(b, header):
            out.append(("exit", path))
            continue
        succ = body.succ(b)
        if not succ:
            out.append(("exit", path))
            continue
        for s in succ:
            if s in path and s != header:
                continue
            stack.append((s, path + [s]))
        if len(out) > limit:
            raise RuntimeError("too many loop paths")
    return out


def check_feed_loop(ck, fn, counting):
    body = mir.Body(fn)
    key = fn["path"]
    nexts = [(i, t) for i, t in body.calls() if cp(t) == NEXT and body.in_cycle(i)]
    if not ck.ob("L-one-next-in-loop", key, len(nexts) == 1, "%s: expected exactly one Iterator::next inside a loop, found %d" % (key, len(nexts))):
        return
    hb, ht = nexts[0]
    res_local = ht["d"]["l"]
    sws = [s for s in mir.discr_switches(body) if s[1] == ("discr", body.origin_local(res_local)) or (s[1][0] == "discr" and s[1][1][0] == "call" and s[1][1][1] == NEXT)]
    sws = [s for s in sws if body.dominates(hb, s[0])]
    arms = [(s, mir.enum_arms(body, s)) for s in sws]
    arms = [(s, a) for s, a in arms if set(a) == {0, 1}]
    if not ck.ob("L-dispatch-on-next", key, len(arms) >= 1, "%s does not match on the result of next()" % key):
        return
    sw, arm = arms[0]
    some_bb, none_bb = arm[1], arm[0]
    # None arm leaves the loop and never calls the callback
    none_blocks = mir.dominated(body, none_bb)
    ck.ob("L-exhaustion-exits", key, not body.reaches(none_bb, hb) and none_bb != hb, "%s keeps looping after the source is exhausted" % key)
    ck.ob("L-no-call-after-end", key, not any(cp(t) == CALL for _, t in mir.calls_in(body, none_blocks)),
          "%s invokes the callback after the source ended" % key)
    paths = loop_paths(body, some_bb, hb)
    call_blocks = {i for i, t in body.calls() if cp(t) == CALL}
    payload = ("field", ("downcast", body.origin_local(res_local), "Some"), "0")
    cnt_local = None
    if counting:
        o = None
        # returned local: `_0 = copy cnt`
        d0 = body.defs().get(0, [])
        # every assignment of the return value (one at the end, or one per early `return cnt`) copies the same local
        locs = set()
        for d in d0:
            pl = (d[3]["o"].get("c") or d[3]["o"].get("m")) if d[2] == "rv" and d[3]["k"] == "use" else None
            locs.add(pl["l"] if pl and not pl["p"] else None)
        if len(locs) == 1 and None not in locs:
            cnt_local = locs.pop()
        ck.ob("L-returns-counter", key, cnt_local is not None, "%s does not return its counter variable" % key)
    inc_blocks = set()
    if cnt_local is not None:
        for d in body.defs().get(cnt_local, []):
            if d[2] == "rv":
                o = body.origin_rvalue(d[3])
                if o[0] == "const":
                    ck.ob("L-counter-starts-at-zero", key, o[1] == 0 and not body.in_cycle(d[0]), "%s: counter is initialised to %s or re-initialised in the loop" % (key, o[1]))
                else:
                    # cnt = (AddWithOverflow(cnt, 1)).0
                    s = mir.strip(o)
                    good = s[0] == "field" and s[2] == "0" and s[1][0] == "bin" and s[1][1].startswith("Add") and s[1][3] == ("const", 1, "usize")
                    ck.ob("L-counter-increment-by-one", key, good, "%s: counter update is %s, expected cnt + 1" % (key, mir.fmt(o)))
                    inc_blocks.add(d[0])
    for kind, path in paths:
        calls = [b for b in path if b in call_blocks]
        pk = "%s/path-%s-%s" % (key, kind, "-".join(map(str, path[:6])))
        ck.ob("L-one-call-per-item", pk, len(calls) == 1, "%s: a loop path (%s: blocks %s) delivers the item %d times" % (key, kind, path, len(calls)),
              sample={"fn": key, "path": path, "calls": len(calls)})
        if len(calls) == 1:
            t = body.blocks[calls[0]]["t"]
            a = body.origin_operand(t["args"][1])
            ck.ob("L-item-moved-into-call", pk, a == payload and "m" in t["args"][1], "%s passes %s to the callback instead of the item just produced" % (key, mir.fmt(a)))
            if counting:
                incs = [b for b in path if b in inc_blocks]
                ck.ob("L-count-before-call", pk, len(incs) == 1 and path.index(incs[0]) <= path.index(calls[0]),
                      "%s: on loop path %s the counter is incremented %d times / not before the call" % (key, path, len(incs)))
    # stopping condition: the callback's result is switched on; false (0) leaves the loop, true continues
    for cb in sorted(call_blocks):
        t = body.blocks[cb]["t"]
        nxt = t["t"]
        st = body.blocks[nxt]["t"] if nxt is not None else None
        ok = st is not None and st["k"] == "switch" and body.origin_operand(st["o"])[0] == "call" and body.origin_operand(st["o"])[1] == CALL
        if ok:
            tg = {int(v): bb for v, bb in st["targets"]}
            false_bb = tg.get(0)
            true_bb = st["otherwise"] if 1 not in tg else tg[1]
            ok = false_bb is not None and not body.reaches(false_bb, hb) and false_bb != hb and (true_bb == hb or body.reaches(true_bb, hb))
        ck.ob("L-stop-on-false", key, ok, "%s does not stop feeding exactly when the callback returns false" % key, sample={"fn": key})
    return len(paths)


def check_internal_iteration(ck, fn, by, counting):
    """Feeding written with a short-circuiting internal iterator instead of an explicit loop: `into_iter().try_fold(0, |cnt, v| ..)` or
    `.all(|v| ..)`.  std's contract for these is "call the closure once per item, in order, until it says stop"; what remains to check is
    the closure: one callback.call(item) per invocation, stop exactly when it returns false, and (counting) the accumulator grows by one
    on both outcomes and is what the function returns."""
    body = mir.Body(fn)
    key = fn["path"]
    tf = [(i, t) for i, t in body.calls() if cp(t) in ("std::iter::Iterator::try_fold", "std::iter::Iterator::all")]
    if len(tf) != 1 or body.in_cycle(tf[0][0]) or not body.on_all_paths_to_return(tf[0][0]):
        return False
    i, t = tf[0]
    kind = cp(t).split("::")[-1]
    it = mir.strip(body.origin_operand(t["args"][0]))
    while it[0] == "call" and it[1].endswith("into_iter"):
        it = mir.strip(it[2][0])
    clo = body.origin_operand(t["args"][-1])
    cpath = clo[1][len("closure:"):] if clo[0] == "agg" and str(clo[1]).startswith("closure:") else None
    cfn = by.get(cpath)
    # the iterable is the function's own input: `self` for FeedCallback, the `iter` parameter for Extend
    if it != ("arg", 1 if counting else 2) or cfn is None:
        return False
    if kind == "try_fold" and body.origin_operand(t["args"][1]) != ("const", 0, "usize"):
        return False
    ev = sem.Evaluator(by, {}, inline=lambda p: p != CALL)
    env, acc, item = ("sym", "env"), ("sym", "acc"), ("sym", "item")
    outs = ev.run(cfn, [env, acc, item] if kind == "try_fold" else [env, item])
    good = bool(outs) and all(o.kind == "ret" for o in outs)
    if good and counting and kind == "all":
        # the counter is a captured `&mut usize`: every invocation adds exactly one to it (whatever the callback answers), and the
        # function returns that very local
        for o in outs:
            incs = [(k, v) for k, v in o.state.over.items() if k[0][0] == "ext" and sem.contains(k[0][1], lambda x: x == env)]
            one = len(incs) == 1 and sem.strip(incs[0][1])[0] == "opq" and sem.strip(incs[0][1])[2][0] == "bin" and sem.strip(incs[0][1])[2][1] in ("Add", "AddUnchecked") \
                and sem.strip(sem.strip(incs[0][1])[2][3]) == ("const", 1) and sem.contains(sem.strip(incs[0][1])[2][2], lambda x: x == env)
            good = good and one
        d0 = body.defs().get(0, [])
        locs = set()
        for d in d0:
            pl = (d[3]["o"].get("c") or d[3]["o"].get("m")) if d[2] == "rv" and d[3]["k"] == "use" else None
            locs.add(pl["l"] if pl and not pl["p"] else None)
        captured = set()
        if clo[0] == "agg":
            for x in clo[4]:
                x = mir.strip(x, casts=False, refs=False)
                if x[0] == "ref" and x[1][0] in ("local",):
                    captured.add(x[1][1])
        good = good and len(locs) == 1 and None not in locs
        if good:
            # the returned local is one the closure borrows mutably
            cl = locs.pop()
            refs = [st_ for i2 in sorted(body.live_blocks()) for st_ in body.blocks[i2]["s"] if st_["k"] == "assign" and st_["r"]["k"] == "ref" and st_["r"]["bk"] == "mut" and st_["r"]["p"]["l"] == cl and not st_["r"]["p"]["p"]]
            init = [d for d in body.defs().get(cl, []) if d[2] == "rv" and body.origin_rvalue(d[3]) == ("const", 0, "usize")]
            good = len(refs) == 1 and len(init) == 1 and len(body.defs().get(cl, [])) == 1
    for o in outs:
        calls = o.calls(CALL)
        good = good and len(calls) == 1 and sem.strip(calls[0][2][-1]) == item and len([e for e in o.effects if e[0] in ("call", "icall")]) == 1 \
            and not [e for e in o.effects if e[0] == "drop" and sem.contains(e[1], lambda x: x == item)]
        if not good:
            break
        verdict = [c for c in o.conds if c[0] == "eq" and sem.strip(c[1])[0] == "opq" and sem.strip(c[1])[1] == calls[0][3]]
        r = sem.strip(o.ret)
        if kind == "all":
            # the closure returns the callback's verdict itself (continue while true)
            good = good and ((r[0] == "opq" and r[1] == calls[0][3]) or (len(verdict) == 1 and r == ("const", verdict[0][2])))
        else:
            if len(verdict) != 1 or r[0] != "agg":
                good = False
                break
            go_on = verdict[0][2] == 1
            good = good and ((r[3] in ("Ok", "Continue", "Some")) == go_on)
            p0 = sem.strip(r[4][0]) if r[4] else ("?",)
            good = good and (not counting or (p0[0] == "opq" and p0[2][0] == "bin" and p0[2][1] in ("Add", "AddUnchecked") and sem.strip(p0[2][2]) == acc and sem.strip(p0[2][3]) == ("const", 1)))
    if good and counting and kind == "try_fold":
        # the function returns the accumulator carried by either outcome of try_fold
        whole = sem.Evaluator(by, {}, inline=lambda p: False)
        outs2 = whole.run(fn, [("sym", "self"), ("sym", "callback")])
        good = bool(outs2) and all(o.kind == "ret" and sem.strip(o.ret)[0] == "pay" and sem.strip(sem.strip(o.ret)[1])[0] == "opq"
                                   and sem.strip(sem.strip(o.ret)[1])[2][1] == "std::iter::Iterator::try_fold" for o in outs2)
    return good


def shape_check_iter_trampoline(ck, fn):
    body = mir.Body(fn)
    key = fn["path"]
    nx = [(i, t) for i, t in body.calls() if cp(t) == NEXT]
    ok = len(nx) == 1 and body.on_all_paths_to_return(nx[0][0]) and not body.in_cycle(nx[0][0]) and mir.strip(body.origin_operand(nx[0][1]["args"][0])) == ("arg", 1)
    if not ck.ob("I-one-next", key, ok, "%s must advance its source exactly once per call" % key):
        return
    sws = [s for s in mir.discr_switches(body) if s[1][0] == "discr" and s[1][1][0] == "call" and s[1][1][1] == NEXT and set(mir.enum_arms(body, s)) == {0, 1}]
    if not ck.ob("I-dispatch", key, len(sws) >= 1, "%s does not match on next()" % key):
        return
    sw = sws[0]
    arm = mir.enum_arms(body, sw)
    some_b, none_b = mir.dominated(body, arm[1]), mir.dominated(body, arm[0])
    writes = [(i, t) for i, t in body.calls() if cp(t).endswith("::write")]
    good = len(writes) == 1 and writes[0][0] in some_b
    if good:
        t = writes[0][1]
        dst = mir.strip(body.origin_operand(t["args"][0]))
        while dst[0] == "call" and dst[1].endswith("as_mut_ptr"):
            dst = mir.strip(dst[2][0])
        good = dst == ("arg", 2) and body.origin_operand(t["args"][1]) == ("field", ("downcast", sw[1][1], "Some"), "0")
    ck.ob("I-write-only-for-item", key, good, "%s must write the yielded item (and only it) into `out` exactly on the Some arm" % key, sample={"fn": key})
    rs = {}
    for d in body.defs().get(0, []):
        if d[2] == "rv":
            o = body.origin_rvalue(d[3])
            arm = "some" if d[0] in some_b else ("none" if d[0] in none_b else "?")
            rs[arm] = o
    ck.ob("I-code-zero-iff-item", key, rs.get("some") == ("const", 0, "i32") and rs.get("none", ("x",))[0] == "const" and rs["none"][1] != 0 and "?" not in rs,
          "%s returns %s (must be 0 exactly when an item was written)" % (key, {k: mir.fmt(v) for k, v in rs.items()}))


def check_trampoline(ck, fn):
    """extern "C" fn(ctx, item) -> bool: the item is consumed by exactly one call on every path."""
    body = mir.Body(fn)
    key = fn["path"]
    uses = []
    for i, t in body.calls():
        for a in t["args"]:
            o = body.origin_operand(a)
            if mir.contains(o, lambda x: x == ("arg", 2)):
                uses.append((i, t))
                break
    ok = len(uses) == 1 and body.on_all_paths_to_return(uses[0][0]) and not body.in_cycle(uses[0][0])
    ck.ob("T-item-delivered-once", key, ok, "trampoline %s hands its item to %d calls (must be exactly one, on every path)" % (key, len(uses)),
          sample={"fn": key, "sink": cp(uses[0][1]) if uses else None})
    if not ok:
        return
    i, t = uses[0]
    # receiver is the context parameter
    recv = mir.strip(body.origin_operand(t["args"][0]))
    ck.ob("T-sink-is-context", key, recv == ("arg", 1), "trampoline %s delivers into %s instead of its own context" % (key, mir.fmt(recv)))
    ret = body.origin_local(0)
    good = (ret[0] == "call" and ret[3] == i) or ret == ("const", 1, "bool")
    ck.ob("T-result", key, good, "trampoline %s returns %s (must be the sink's verdict, or constant true for collecting sinks)" % (key, mir.fmt(ret)))
    sink = cp(t)
    if sink.endswith("Vec::<T, A>::push") or sink.endswith("::push"):
        ck.ob("T-vec-push-value", key, body.origin_operand(t["args"][1]) == ("arg", 2), "Vec trampoline pushes something else than the item")
    if sink.endswith("Extend::extend"):
        a = body.origin_operand(t["args"][1])
        ck.ob("T-extend-some-item", key, a[0] == "agg" and a[2] == "Some" and a[4][0] == ("arg", 2), "Extend trampoline extends with %s" % mir.fmt(a))


def check_all(ck, tier):
    f = facts.cfg_cglue()
    ck.unit("cglue lib")
    fns = [x for x in f.fns("cglue-lib") if "/callback.rs" in x["span"] or "/iter.rs" in x["span"]]
    by = {x["path"]: x for x in fns}
    by_all = {x["path"]: x for x in f.fns("cglue-lib")}
    # ---- feeding loops --------------------------------------------------------------------------------
    n_loops = 0
    for fn in fns:
        body = mir.Body(fn)
        if any(cp(t) == NEXT and body.in_cycle(i) for i, t in body.calls()):
            counting = fn["output"] == "usize"
            n_loops += 1
            check_feed_loop(ck, fn, counting)
    ck.floor("feeding entry points", len([x for x in fns if x["name"] in ("feed_into_mut", "extend")]), 2)
    # the two feeding entry points are identified by what they implement; each must be a recognisable feeding loop
    # (accepted idiom: `for v in iter { [cnt += 1;] if !callback.call(v) { break } }`), otherwise count/stop behaviour is not established
    for fn in fns:
        is_feed = fn["name"] == "feed_into_mut" and (fn.get("impl_trait") or "").endswith("callback::FeedCallback")
        is_ext = fn["name"] == "extend" and fn.get("impl_trait") == "std::iter::Extend" and "OpaqueCallback" in (fn.get("impl_self") or "")
        if is_feed or is_ext:
            body = mir.Body(fn)
            has_loop = any(cp(t) == NEXT and body.in_cycle(i) for i, t in body.calls())
            direct = [(i, t) for i, t in body.calls() if cp(t) == CALL]
            internal = (not has_loop) and check_internal_iteration(ck, fn, by_all, is_feed)
            ck.ob("L-feed-loop-shape", fn["path"], (has_loop and len(direct) >= 1) or internal,
                  "%s (%s) is not a loop over `next()` that calls the callback itself (e.g. it delegates to iterator adapters): the rule cannot establish that every offered "
                  "item is counted and that feeding stops after the first `false`; accepted idiom: for v in iter { cnt += 1; if !callback.call(v) { break } }" % (fn["path"], fn["span"]),
                  sample={"fn": fn["path"]})
    # feed_into delegates
    fi = [x for x in fns if x["name"] == "feed_into" and x.get("of_trait")]
    for fn in fi:
        body = mir.Body(fn)
        o = body.origin_local(0)
        ck.ob("L-feed-into-delegates", fn["path"], o[0] == "call" and o[1].endswith("FeedCallback::feed_into_mut") and o[2][0] == ("arg", 1)
              and mir.strip(o[2][1]) == ("arg", 2), "feed_into does not forward (self, &mut callback) to feed_into_mut: %s" % mir.fmt(o))
    # ---- trampolines ---------------------------------------------------------------------------------------
    tramps = [x for x in fns if x.get("abi", "").startswith("C") and "/callback.rs" in x["span"]]
    ck.floor("callback trampolines", len(tramps), 3)
    for fn in tramps:
        check_trampoline(ck, fn)
    # ---- pairing: context and function erased together ------------------------------------------------
    n_pair = 0
    for fn in fns:
        body = mir.Body(fn)
        # pairing sites: `Callback { context, func }` aggregates and `Callback::new(context, func)` calls
        pair_sites = []
        for i in sorted(body.live_blocks()):
            for s in body.blocks[i]["s"]:
                if s["k"] == "assign" and s["r"]["k"] == "agg" and s["r"].get("adt") == CB + "Callback":
                    pair_sites.append(dict(zip(s["r"]["fields"], [body.origin_operand(o) for o in s["r"]["ops"]])))
        for i, t in body.calls():
            if cp(t) == CB + "Callback::<'a, T, F>::new":
                pair_sites.append({"context": body.origin_operand(t["args"][0]), "func": body.origin_operand(t["args"][1])})
        for ops in pair_sites:
                if True:
                    n_pair += 1
                    fo = ops["func"]
                    while fo[0] == "cast":
                        fo = fo[2]
                    co = mir.strip(ops["context"])
                    while co[0] == "cast":
                        co = mir.strip(co[2])
                    if fo[0] == "fnconst":
                        # the trampoline's first parameter type, instantiated with the generic arguments given here,
                        # must be the type of the context it is paired with
                        ctx_ty = body.locals[co[1]]["ty"] if co[0] == "arg" else None
                        tf = by.get(fo[1])
                        targ = None
                        if tf is not None:
                            targ = tf["inputs"][0]
                            names = [g for g, k in tf["generics"] if k != "lt"]
                            for nm, val in zip(names, fo[2][1]):
                                targ = re.sub(r"\b%s\b" % re.escape(nm), "\x00" + val + "\x01", targ)
                            targ = targ.replace("\x00", "").replace("\x01", "")
                        norm = lambda x: re.sub(r"'\w+ ", "", x or "")
                        ok = co[0] == "arg" and targ is not None and norm(ctx_ty) == norm(targ)
                        ck.ob("P-pair-same-type", fn["path"], ok, "%s pairs context %s with trampoline instantiated at %s" % (fn["path"], ctx_ty, targ),
                              sample={"fn": fn["path"], "context": ctx_ty, "trampoline_arg": targ})
                    else:
                        # into_opaque / new: both fields come from the same source value / the two parameters
                        same = (fo[0] == "field" and co[0] == "field" and fo[1] == co[1] and fo[2] == "func" and co[2] == "context") or \
                               (fo[0] == "arg" and co[0] == "arg")
                        ck.ob("P-pair-same-source", fn["path"], same, "%s builds a Callback from context=%s and func=%s (different sources)" % (fn["path"], mir.fmt(co), mir.fmt(fo)))
        for i in sorted(body.live_blocks()):
            for s in body.blocks[i]["s"]:
                if s["k"] != "assign" or s["r"]["k"] != "agg":
                    continue
                adt = s["r"].get("adt")
                if adt == CB + "OpaqueCallback":
                    o = body.origin_operand(s["r"]["ops"][0])
                    ck.ob("P-opaque-from-into-opaque", fn["path"], o[0] == "call" and o[1].endswith("Callback::<'a, T, F>::into_opaque"),
                          "%s builds an OpaqueCallback from %s" % (fn["path"], mir.fmt(o)))
    ck.floor("Callback constructions", n_pair, 4)
    # OpaqueCallback::call: func and context of the same pair, argument forwarded
    for name in (CALL, "<cglue::callback::OpaqueCallback<'_, T> as cglue::callback::Callbackable<T>>::call"):
        fn = by.get(name)
        if not ck.require(fn is not None, "function " + name):
            continue
        # semantic form: one indirect call, through this callback's own `func`, with its own `context` and the argument; its result returned
        ev = sem.Evaluator(by_all, {}, inline=lambda p: p.startswith(("cglue::", "<cglue::")))
        me, data = ("sym", "self"), ("sym", "data")
        outs = ev.run(fn, [me, data])
        ok = len(outs) == 1 and outs[0].kind == "ret"
        if ok:
            ics = [e for e in outs[0].effects if e[0] == "icall"]
            others = [e for e in outs[0].effects if e[0] == "call"]
            ok = len(ics) == 1 and not others
            if ok:
                fval, args = sem.strip(ics[0][1]), [sem.strip(a) for a in ics[0][2]]

                def cb_field(v, name):
                    # (**self).0.<name> -- through any number of references to the callback
                    return v[0] == "fld" and v[3] == name and sem.contains(v, lambda x: x == me)
                r = sem.strip(outs[0].ret)
                ok = cb_field(fval, "func") and len(args) == 2 and cb_field(args[0], "context") and fval[1] == args[0][1] and args[1] == data \
                    and r[0] == "opq" and r[2][0] == "icall"
        ck.ob("P-call-uses-own-pair", name, ok, "%s does not invoke its own func with its own context and the argument, returning the verdict" % name)

    # ---- CIterator -----------------------------------------------------------------------------------------
    tr = [x for x in fns if x.get("abi", "").startswith("C") and "/iter.rs" in x["span"]]
    ck.floor("iterator trampolines", len(tr), 1)
    for fn in tr:
        key = fn["path"]
        # semantic form: per case of `next()` -- Some(e): e is written into `out` exactly once (a raw write, nothing read or dropped there)
        # and 0 is returned; None: `out` is not touched and a non-zero code is returned
        ev = sem.Evaluator(by_all, {}, inline=lambda p: "::{closure" in p or p.startswith(("cglue::", "<")))
        it, out = ("sym", "iter"), ("sym", "out")
        outs = ev.run(fn, [it, out])
        if not outs or any(o.kind != "ret" for o in outs):
            shape_check_iter_trampoline(ck, fn)
            continue
        good_next = all(len(o.calls(NEXT)) == 1 and sem.strip(o.calls(NEXT)[0][2][0]) == it for o in outs)
        if not ck.ob("I-one-next", key, good_next, "%s must advance its source exactly once per call" % key):
            continue
        somes = [o for o in outs if any(c[0] == "discr" and c[2] == "Some" for c in o.conds)]
        nones = [o for o in outs if any(c[0] == "discr" and c[2] == "None" for c in o.conds)]
        if not ck.ob("I-dispatch", key, bool(somes) and bool(nones) and len(somes) + len(nones) == len(outs), "%s does not decide by the result of next(): %s" % (key, outs)):
            continue
        for o in somes:
            nxt = o.calls(NEXT)[0]
            pay = ("pay", ("opq", nxt[3], ("call",) + tuple(nxt[1:3]) + (None,)), "Some", 0)
            writes = [e for e in o.calls() if e[1].endswith("::write") and sem.contains(e[2][0], lambda x: x == out)]

            def is_item(v):
                v = sem.strip(v)
                return v[0] == "pay" and v[2] == "Some" and sem.strip(v[1])[0] == "opq" and sem.strip(v[1])[1] == nxt[3]
            uses = [e for e in o.effects if e[0] in ("call", "icall") and any(sem.contains(a, is_item) or is_item(a) for a in e[2])]
            bad = [e for e in o.effects if e[0] == "drop" or (e[0] in ("call", "icall") and e not in writes and e[1] != NEXT and not e[1].endswith("as_mut_ptr"))]
            good = len(writes) == 1 and is_item(writes[0][2][-1]) and len(uses) == 1 and not bad and not o.state.over_touches(out)
            ck.ob("I-write-only-for-item", key, good, "%s must write the yielded item (and only it) into `out`, once, without reading or dropping what was there: %s" % (key, o), sample={"fn": key})
            ck.ob("I-code-zero-iff-item", key + "/Some", o.ret == ("const", 0), "%s returns %s for an item (must be 0)" % (key, sem.fmt(o.ret)))
        for o in nones:
            touched = [e for e in o.effects if e[0] in ("call", "icall", "drop") and e[1] != NEXT and any(sem.contains(a, lambda x: x == out) for a in (e[2] if e[0] != "drop" else (e[1],)))]
            ck.ob("I-write-only-for-item", key + "/None", not touched and not o.state.over_touches(out), "%s touches `out` although the source ended: %s" % (key, o))
            r = sem.strip(o.ret)
            ck.ob("I-code-zero-iff-item", key + "/None", r[0] == "const" and r[1] != 0, "%s returns %s at the end (must be a non-zero constant)" % (key, sem.fmt(o.ret)))
    nf = by.get("<cglue::iter::CIterator<'a, T> as std::iter::Iterator>::next")
    sem_next_done = False
    if nf is not None:
        key = nf["path"]
        ev = sem.Evaluator(by_all, {}, inline=lambda p: "::{closure" in p or p.startswith(("cglue::", "<")))
        me = ("sym", "self")
        outs = ev.run(nf, [me])
        if outs and all(o.kind == "ret" for o in outs) and all(len([e for e in o.effects if e[0] == "icall"]) == 1 for o in outs):
            sem_next_done = True
            ck.ob("I-next-one-call", key, True, sample={"fn": key})
            for n_o, o in enumerate(outs):
                ic = [e for e in o.effects if e[0] == "icall"][0]
                fval, a0, a1 = sem.strip(ic[1]), sem.strip(ic[2][0]), sem.strip(ic[2][1])
                own = fval[0] == "fld" and fval[3] == "func" and a0[0] == "fld" and a0[3] == "iter" and fval[1] == a0[1] and sem.contains(fval, lambda x: x == me)
                ck.ob("I-next-own-pair", key, own, "CIterator::next does not call its own func with its own iter")
                # the slot handed to the function is a fresh MaybeUninit::uninit()
                slot_ok = sem.contains(a1, lambda x: x[0] == "opq" and x[2][0] == "call" and x[2][1].endswith("MaybeUninit::<T>::uninit"))
                zero = any(c[0] == "eq" and sem.strip(c[1])[0] == "opq" and sem.strip(c[1])[1] == ic[3] and c[2] == 0 for c in o.conds)
                reads = [e for e in o.calls() if e[1].endswith("assume_init") or e[1].endswith("assume_init_read")]
                r = sem.strip(o.ret)
                if zero:
                    good = slot_ok and len(reads) == 1 and sem.contains(reads[0][2][0], lambda x: x[0] == "opq" and x[2][0] == "call" and x[2][1].endswith("MaybeUninit::<T>::uninit")) \
                        and r[0] == "agg" and r[3] == "Some" and sem.strip(r[4][0])[0] == "opq" and sem.strip(r[4][0])[1] == reads[0][3]
                else:
                    good = slot_ok and not reads and r[0] == "agg" and r[3] == "None"
                ck.ob("I-next-reads-slot-only-on-zero", "%s/case-%d" % (key, n_o), good, "CIterator::next must read the slot it passed, once, and only when the code is 0: %s" % o, sample={"fn": key})
                ck.ob("I-next-variant-by-code", "%s/%s" % (key, "Some" if zero else "None"), (r[0] == "agg" and r[3] == ("Some" if zero else "None")),
                      "CIterator::next returns %s for code %s 0" % (sem.fmt(o.ret), "==" if zero else "!="))
    if not sem_next_done and ck.require(nf is not None, "CIterator::next"):
        body = mir.Body(nf)
        key = nf["path"]
        ic = [(i, t) for i, t in body.calls() if t.get("callee") is None]
        ok = len(ic) == 1 and body.on_all_paths_to_return(ic[0][0]) and not body.in_cycle(ic[0][0])
        if ck.ob("I-next-one-call", key, ok, "CIterator::next must call the stored function exactly once"):
            t = ic[0][1]
            fo = mir.strip(body.origin_operand(t["f"]))
            io = mir.strip(body.origin_operand(t["args"][0]))
            so = mir.strip(body.origin_operand(t["args"][1]))
            ck.ob("I-next-own-pair", key, fo[0] == "field" and fo[2] == "func" and io[0] == "field" and io[2] == "iter" and mir.strip(fo[1]) == mir.strip(io[1]) == ("arg", 1),
                  "CIterator::next does not call its own func with its own iter")
            ai = [(i, tt) for i, tt in body.calls() if cp(tt).endswith("::assume_init")]
            sws = [z for z in mir.zero_tests(body) if z[1][0] == "icall"]
            good = len(sws) == 1 and len(ai) == 1
            if good:
                sw = sws[0]
                true_b = mir.dominated(body, sw[2])
                false_b = mir.dominated(body, sw[3])
                slot = mir.strip(body.origin_operand(ai[0][1]["args"][0]))
                good = ai[0][0] in true_b and slot == so and slot[0] == "call" and slot[1].endswith("MaybeUninit::<T>::uninit")
                for i in sorted(body.live_blocks()):
                    for s in body.blocks[i]["s"]:
                        if s["k"] == "assign" and s["r"]["k"] == "agg" and s["p"]["l"] == 0:
                            v = s["r"]["variant"]
                            ck.ob("I-next-variant-by-code", key + "/" + v, (v == "Some" and i in true_b) or (v == "None" and i in false_b),
                                  "CIterator::next builds %s on the wrong side of the `== 0` test" % v)
            ck.ob("I-next-reads-slot-only-on-zero", key, good, "CIterator::next must read the slot it passed, once, and only when the code is 0", sample={"fn": key})
    nw = by.get("cglue::iter::CIterator::<'a, T>::new")
    if ck.require(nw is not None, "CIterator::new"):
        body = mir.Body(nw)
        agg = None
        for i in sorted(body.live_blocks()):
            for s in body.blocks[i]["s"]:
                if s["k"] == "assign" and s["r"]["k"] == "agg" and s["r"].get("adt") == "cglue::iter::CIterator":
                    agg = s["r"]
        if ck.require(agg is not None, "CIterator aggregate in new"):
            ops = dict(zip(agg["fields"], [body.origin_operand(o) for o in agg["ops"]]))
            io = ops["iter"]
            # peel: &mut *unwrap(as_mut(cast(&raw mut *arg1)))
            seen_arg = mir.contains(io, lambda x: x == ("arg", 1))
            fo = ops["func"]
            while fo[0] == "cast":
                fo = fo[2]
            ok = seen_arg and fo[0] == "fnconst" and fo[2][1] and fo[2][1][0] == "I" and nw["inputs"][0].endswith("mut I")
            ck.ob("I-new-pairs-at-same-type", nw["path"], ok, "CIterator::new pairs the iterator pointer with a trampoline instantiated at %s" % (str(fo[2][1]) if fo[0] == "fnconst" else mir.fmt(fo),),
                  sample={"iter": mir.fmt(io)[:100], "func": fo[1] if fo[0] == "fnconst" else None})


def run(tier):
    ck = report.Check("C15", tier, level="other")
    check_all(ck, tier)
    return ck.finish(
        "loop-body path rules on every feeding loop (FeedCallback::feed_into_mut, Extend for OpaqueCallback), exactly-once delivery rules on every "
        "extern \"C\" trampoline, pairing rules on every Callback/OpaqueCallback/CIterator construction, and arm rules on the iterator trampoline and "
        "CIterator::next; loop-body invariance gives the statement for every item sequence and stop position",
        rule_text="obligation = one (function or loop path, clause)",
        trusted=["behaviour of the wrapped iterator/closure itself is outside the property"])
