"""C08 -- group casts succeed exactly when the requested traits are present.

For every generated group and every non-empty subset S of its optional traits (enumerated from the group's own field list):
G3 cast_impl_S / into_impl_S apply `?` to exactly the slots of S, build the target only after all of them yielded Some, move every
   other field by name; G4 as_ref_impl_S / as_mut_impl_S validate exactly S before reinterpreting, and S is exactly the set of slots
   that are non-Option in With_S; G5 check_impl_S = as_ref_impl_S().is_some(); G6 enable_x sets only slot x, Default for Vtables leaves
   every optional slot None, fill_table enables exactly the listed traits; G2 With_S has the layout of the group (compiler-computed);
G8 upcast / From<With_S> is the bit-preserving opaque conversion.
"""
import itertools, re
from lib import corpus, facts, mir, model, report, forward, sem

BRANCH = "std::ops::Try::branch"
OPS = ("check", "as_ref", "as_mut", "cast", "into")


def is_opt(ty):
    return ty.startswith("std::option::Option<") or ty.startswith("core::option::Option<")


def branch_sets(body):
    """[(bb, slot name, continue-arm bb)] for every `?` applied to a vtable slot of self."""
    out = []
    for i, t in body.calls():
        if mir.callee_path(t) != BRANCH:
            continue
        o = forward.leafify(body.origin_operand(t["args"][0]))
        slot = o[2] if o[0] == "field" and forward.leafify(o[1]) == ("arg", 1) else None
        nxt = t["t"]
        st = body.blocks[nxt]["t"] if nxt is not None else None
        cont = None
        if st and st["k"] == "switch":
            cont = {int(v): b for v, b in st["targets"]}.get(0)
        out.append((i, slot, cont))
    return out


def slot_of(o):
    o = mir.deepstrip(o)
    if o[0] == "field" and o[1] == ("arg", 1):
        return o[2]
    return None


def switch_condition(body, bb):
    """Meaning of a switch terminator as a presence test of one of self's vtable slots:
    returns (slot, {value: 'some'|'none'}, otherwise_meaning) or None when it is some other condition."""
    t = body.blocks[bb]["t"]
    o = mir.deepstrip(body.origin_operand(t["o"]))
    if o[0] == "discr":
        inner = o[1]
        if inner[0] == "call" and inner[1] == BRANCH:
            sl = slot_of(inner[2][0])
            return (sl, {0: "some", 1: "none"}, None) if sl else None
        sl = slot_of(inner)
        if sl:
            return (sl, {1: "some", 0: "none"}, None)
        return None
    if o[0] == "call" and o[1].endswith("Option::<T>::is_none"):
        sl = slot_of(o[2][0])
        return (sl, {0: "some"}, "none") if sl else None
    if o[0] == "call" and o[1].endswith("Option::<T>::is_some"):
        sl = slot_of(o[2][0])
        return (sl, {0: "none"}, "some") if sl else None
    return None


def path_constraints(body, path):
    """{slot: 'some'|'none'} required along a block path; 'unknown' key when a switch is not a slot presence test."""
    cons = {}
    for a, b in zip(path, path[1:]):
        t = body.blocks[a]["t"]
        if t["k"] != "switch":
            continue
        sc = switch_condition(body, a)
        if sc is None:
            cons["<other-condition>"] = "unknown"
            continue
        slot, table, otherwise = sc
        tg = {int(v): d for v, d in t["targets"]}
        vals = [v for v, d in tg.items() if d == b]
        meaning = None
        if vals:
            meaning = table.get(vals[0], otherwise)
        elif b == t["otherwise"]:
            meaning = otherwise
        if meaning:
            if cons.get(slot, meaning) != meaning:
                cons[slot] = "contradiction"
            else:
                cons[slot] = meaning
    return cons


def success_rule(ck, body, key, fname, succ_bb, S):
    """Every path that reaches the success site has all requested slots Some; every other returning path has one of them None."""
    paths = body.paths_to_return()
    ok_succ, ok_fail, n_s, n_f = True, True, 0, 0
    bad = None
    for p in paths:
        if succ_bb in p:
            n_s += 1
            c = path_constraints(body, p[:p.index(succ_bb) + 1])
            if not all(c.get(s) == "some" for s in S) or "<other-condition>" in c:
                ok_succ, bad = False, c
        else:
            n_f += 1
            c = path_constraints(body, p)
            if not any(c.get(s) == "none" for s in S) or "<other-condition>" in c:
                ok_fail, bad = False, c
    ck.ob("G3-success-iff-all-requested-present", key, ok_succ and ok_fail and n_s >= 1,
          "%s: %s (path condition %s; requested %s)" % (fname, "reaches its success site without every requested vtable being present" if not ok_succ else
                                                        "can fail although every requested vtable is present" if not ok_fail else "has no success path", bad, list(S)),
          sample={"fn": fname, "success_paths": n_s, "failing_paths": n_f})


OPT_ADT = "std::option::Option"


def sem_outcomes(ev, fn, bf, opt):
    """Case summaries of a group method over a symbolic `self` whose optional vtable slots are symbolic Options.
    Returns (outcomes, me, slot terms) or None when the body cannot be summarised."""
    me = ("sym", "self")
    idx = {n: i for i, (n, _) in enumerate(bf)}
    slot = {n: ("fld", me, idx[n], n) for n in opt}
    for n in opt:
        ev.hint(slot[n], OPT_ADT)
    ev.nonnull.add(me)
    outs = ev.run(fn, [me])
    if not outs or any(o.kind != "ret" for o in outs):
        return None
    return outs, me, slot


def presence(o, slot):
    pres = {}
    for c in o.conds:
        if c[0] == "discr":
            for n, t in slot.items():
                if c[1] == t:
                    pres[n] = "some" if c[2] == "Some" else "none"
    return pres


def sem_success_rule(ck, key, fname, outs, slot, S, is_success):
    """success <=> every requested slot is Some: each successful case has all of S present, each failing case has one of S absent."""
    ok_s = ok_f = True
    n_s = n_f = 0
    bad = None
    for o in outs:
        pres = presence(o, slot)
        if is_success(o):
            n_s += 1
            if not all(pres.get(x) == "some" for x in S):
                ok_s, bad = False, pres
        else:
            n_f += 1
            if not any(pres.get(x) == "none" for x in S):
                ok_f, bad = False, pres
    ck.ob("G3-success-iff-all-requested-present", key, ok_s and ok_f and n_s >= 1,
          "%s: %s (case %s; requested %s)" % (fname, "succeeds without every requested vtable being present" if not ok_s else
                                              "can fail although every requested vtable is present" if not ok_f else "has no successful case", bad, list(S)),
          sample={"fn": fname, "success_cases": n_s, "failing_cases": n_f})


def check_group(ck, m, grp, label, impl_expect, fwd_expect=None, n_fwd=None):
    n_fwd = n_fwd if n_fwd is not None else [0]
    key0 = "%s/%s" % (label, grp.base["path"])
    bf = model.adt_fields(grp.base)
    opt = [n for n, f in bf if is_opt(f["ty"])]
    mand = [n for n, f in bf if n != "container" and not is_opt(f["ty"])]
    inherent = {}
    for f in m.facts.fns(m.unit):
        if f.get("impl_self_adt") == grp.base["path"] and "impl_trait" not in f:
            inherent[f["name"]] = f
    ev = sem.Evaluator({f["path"]: f for f in m.facts.fns(m.unit)}, {}, inline=lambda p: "cglue_internal" in p or "::{closure" in p)
    subsets = []
    for r in range(1, len(opt) + 1):
        for S in itertools.combinations(opt, r):
            subsets.append(S)
    n_ops = 0
    for S in subsets:
        suffix = "_".join(s[len("vtbl_"):] for s in S)
        Sset = set(S)
        for op in OPS:
            fname = "%s_impl_%s" % (op, suffix)
            fn = inherent.get(fname)
            key = "%s/%s" % (key0, fname)
            if not ck.ob("G-op-exists", key, fn is not None, "group %s lacks %s for the optional subset %s" % (grp.name, fname, list(S))):
                continue
            n_ops += 1
            body = mir.Body(fn)
            so = sem_outcomes(ev, fn, bf, opt)
            if so is not None and op == "check":
                outs, me, slot = so
                if all(sem.strip(o.ret)[0] == "const" for o in outs):
                    sem_success_rule(ck, key, fname, outs, slot, S, lambda o: sem.strip(o.ret)[1] == 1)
                    ck.ob("G5-check-is-as-ref-some", key, True, sample={"fn": fname, "form": "true exactly when every requested vtable is present (case summaries)"})
                    continue
            if so is not None and op in ("as_ref", "as_mut"):
                outs, me, slot = so

                def reinterpreted(v, me=me):
                    v = sem.strip(v)
                    if v[0] == "agg" and v[3] == "Some" and v[4]:
                        return sem.strip(v[4][0]) == me
                    return False

                def failed(v):
                    v = sem.strip(v)
                    return v[0] == "agg" and v[3] == "None"
                if all(reinterpreted(o.ret) or failed(o.ret) for o in outs):
                    target = None
                    for i in sorted(body.live_blocks()):
                        for st_ in body.blocks[i]["s"]:
                            if st_["k"] == "assign" and st_["r"]["k"] == "cast" and st_["r"]["ck"] == "PtrToPtr":
                                mm = re.search(r"::(\w+)<", st_["r"]["ty"])
                                if mm and mm.group(1) in grp.withs:
                                    target = mm.group(1)
                    if not ck.ob("G4-reinterprets-as-with", key, target in grp.withs, "%s does not reinterpret the group as a With-variant" % fname):
                        continue
                    ck.ob("G4-reinterprets-self", key, True, sample={"fn": fname})
                    tf = model.adt_fields(grp.withs[target])
                    req = {n for n, f in tf if n in opt and not is_opt(f["ty"])}
                    ck.ob("G4-requested-equals-required-slots", key, req == Sset,
                          "%s reinterprets as %s whose non-Option optional slots are %s, but validates %s" % (fname, target, sorted(req), list(S)),
                          sample={"fn": fname, "target": target, "required": sorted(req)})
                    sem_success_rule(ck, key, fname, outs, slot, S, lambda o: reinterpreted(o.ret))
                    continue
            if so is not None and op in ("cast", "into"):
                outs, me, slot = so
                want_pool = grp.withs if op == "cast" else grp.finals

                def built(v):
                    v = sem.strip(v)
                    if v[0] == "agg" and v[3] == "Some" and v[4]:
                        inner = sem.strip(v[4][0])
                        if inner[0] == "agg" and inner[1] == "adt" and inner[2].rsplit("::", 1)[-1] in want_pool:
                            return inner
                    return None
                if all(built(o.ret) is not None or sem.variant_of(o.ret) == "None" for o in outs) and any(built(o.ret) is not None for o in outs):
                    targets = {built(o.ret)[2].rsplit("::", 1)[-1] for o in outs if built(o.ret) is not None}
                    target = sorted(targets)[0]
                    if not ck.ob("G3-builds-variant", key, len(targets) == 1, "%s builds %s" % (fname, sorted(targets))):
                        continue
                    tf = model.adt_fields(want_pool[target])
                    req = {n for n, f in tf if n in opt and not is_opt(f["ty"])}
                    ck.ob("G4-requested-equals-required-slots", key, req == Sset, "%s targets %s whose required optional slots are %s, requested %s" % (fname, target, sorted(req), list(S)))
                    sem_success_rule(ck, key, fname, outs, slot, S, lambda o: built(o.ret) is not None)
                    idx = {n: i for i, (n, _) in enumerate(bf)}
                    names = [n for n, _ in tf]
                    for o in outs:
                        agg = built(o.ret)
                        if agg is None:
                            continue
                        ck.ob("G3-all-fields-set", key, len(agg[4]) == len(names), "%s does not initialise every field of %s" % (fname, target))
                        for fname_, val in zip(names, agg[4]):
                            val = sem.strip(val)
                            if fname_ in Sset:
                                ok = val == ("pay", slot[fname_], "Some", 0)
                            else:
                                ok = val == ("fld", me, idx.get(fname_, -1), fname_) or (fname_ in slot and val == o.state.refined.get(slot[fname_]))
                            ck.ob("G3-field-moved-by-name", "%s.%s" % (key, fname_), ok, "%s: field %s of the result is %s, expected the group's own %s" % (fname, fname_, sem.fmt(val)[:120], fname_))
                    continue
            if op == "check":
                o = body.origin_local(0)

                def is_as_ref(x):
                    x = forward.leafify(x)
                    return x[0] == "call" and x[1].endswith("::as_ref_impl_" + suffix) and forward.leafify(x[2][0]) == ("arg", 1)
                # `self.as_ref_impl_S().is_some()`, `!...is_none()`, or a match on its discriminant returning true for Some / false for None
                ok = o[0] == "call" and o[1].endswith("Option::<T>::is_some") and is_as_ref(o[2][0])
                if not ok and o[0] == "un" and o[1] == "Not" and o[2][0] == "call" and o[2][1].endswith("Option::<T>::is_none"):
                    ok = is_as_ref(o[2][2][0])
                if not ok:
                    sws = [sw for sw in mir.discr_switches(body) if sw[1][0] == "discr" and is_as_ref(sw[1][1])]
                    if len(sws) == 1 and len(mir.discr_switches(body)) == 1:
                        arms = mir.enum_arms(body, sws[0])
                        vals = {}
                        for d in body.defs().get(0, []):
                            if d[2] == "rv":
                                c = body.origin_rvalue(d[3])
                                if c[0] == "const":
                                    for v, bb in arms.items():
                                        if body.dominates(bb, d[0]):
                                            vals.setdefault(v, set()).add(bool(c[1]))
                        ok = set(arms) == {0, 1} and vals == {0: {False}, 1: {True}} and len(body.defs().get(0, [])) == 2
                ck.ob("G5-check-is-as-ref-some", key, ok, "%s is not `self.as_ref_impl_%s().is_some()`: %s" % (fname, suffix, mir.fmt(o)[:160]))
                continue
            brs = branch_sets(body)
            conts = []
            # success site
            succ_bb, target = None, None
            if op in ("cast", "into"):
                for i in sorted(body.live_blocks()):
                    for s in body.blocks[i]["s"]:
                        if s["k"] == "assign" and s["r"]["k"] == "agg" and (s["r"].get("adt", "").rsplit("::", 1)[-1] in grp.withs or s["r"].get("adt", "").rsplit("::", 1)[-1] in grp.finals):
                            succ_bb, target, agg = i, s["r"]["adt"].rsplit("::", 1)[-1], s["r"]
                want_pool = grp.withs if op == "cast" else grp.finals
                if not ck.ob("G3-builds-variant", key, target in want_pool, "%s builds %s (expected a %s variant)" % (fname, target, "With" if op == "cast" else "Final")):
                    continue
                tf = model.adt_fields(want_pool[target])
                # S == slots that are optional in the group but required in the target
                req = {n for n, f in tf if n in opt and not is_opt(f["ty"])}
                ck.ob("G4-requested-equals-required-slots", key, req == Sset, "%s targets %s whose required optional slots are %s, requested %s" % (fname, target, sorted(req), list(S)))
                success_rule(ck, body, key, fname, succ_bb, S)
                for fname_, opnd in zip(agg["fields"], agg["ops"]):
                    o = forward.leafify(body.origin_operand(opnd))
                    if fname_ in Sset:
                        # the unwrapped value of the group's own slot of the same name (whatever idiom unwraps it)
                        od = mir.deepstrip(o)
                        leaves = [y for y in mir.walk(od) if y[0] == "field" and y[1] == ("arg", 1)]
                        ok = bool(leaves) and all(y[2] == fname_ for y in leaves)
                    else:
                        ok = o == ("field", ("arg", 1), fname_)
                    ck.ob("G3-field-moved-by-name", "%s.%s" % (key, fname_), ok, "%s: field %s of the result is %s, expected the group's own %s" % (fname, fname_, mir.fmt(o)[:120], fname_))
                names = [n for n, _ in tf]
                ck.ob("G3-all-fields-set", key, list(agg["fields"]) == names, "%s does not initialise every field of %s" % (fname, target))
            else:
                for i in sorted(body.live_blocks()):
                    for s in body.blocks[i]["s"]:
                        if s["k"] == "assign" and s["r"]["k"] == "cast" and s["r"]["ck"] == "PtrToPtr":
                            mm = re.search(r"::(\w+)<", s["r"]["ty"])
                            if mm and mm.group(1) in grp.withs:
                                succ_bb, target = i, mm.group(1)
                                src = forward.leafify(body.origin_operand(s["r"]["o"]))
                if not ck.ob("G4-reinterprets-as-with", key, target in grp.withs, "%s does not reinterpret the group as a With-variant" % fname):
                    continue
                ck.ob("G4-reinterprets-self", key, src == ("arg", 1), "%s reinterprets %s instead of `self`" % (fname, mir.fmt(src)))
                tf = model.adt_fields(grp.withs[target])
                req = {n for n, f in tf if n in opt and not is_opt(f["ty"])}
                ck.ob("G4-requested-equals-required-slots", key, req == Sset,
                      "%s reinterprets as %s whose non-Option optional slots are %s, but validates %s" % (fname, target, sorted(req), list(S)),
                      sample={"fn": fname, "target": target, "required": sorted(req)})
                success_rule(ck, body, key, fname, succ_bb, S)
    # ---- G6 fillers -------------------------------------------------------------------------------
    for owner in (grp.base, grp.vtables):
        if owner is None:
            continue
        own_fields = [n for n, _ in model.adt_fields(owner)]
        for n in opt:
            x = n[len("vtbl_"):]
            fn = None
            for f in m.facts.fns(m.unit):
                if f.get("impl_self_adt") == owner["path"] and "impl_trait" not in f and f["name"] == "enable_" + x:
                    fn = f
            key = "%s/%s::enable_%s" % (key0, owner["name"], x)
            if not ck.ob("G6-enable-exists", key, fn is not None, "%s has no enable_%s" % (owner["name"], x)):
                continue
            # semantic form: the result is `self` with exactly slot n replaced by Some(Default::default()) -- struct update, field assignment
            # on `mut self`, or a full literal
            me = ("sym", "self")
            outs = ev.run(fn, [me])
            if len(outs) == 1 and outs[0].kind == "ret":
                r = sem.strip(outs[0].ret)
                vals = None
                if r[0] == "agg" and r[1] == "adt" and len(r[4]) == len(own_fields):
                    vals = dict(zip(own_fields, r[4]))
                elif r[0] == "upd" and sem.strip(r[1]) == me:
                    vals = {nm: ("fld", me, i, nm) for i, nm in enumerate(own_fields)}
                    for pp, v in r[2]:
                        if len(pp) == 1 and pp[0][0] == "f":
                            vals[pp[0][2]] = v
                        else:
                            vals = None
                            break
                if vals is not None:
                    ok = True
                    for i, nm in enumerate(own_fields):
                        v = sem.strip(vals[nm])
                        if nm == n:
                            ok = ok and v[0] == "agg" and v[3] == "Some" and sem.strip(v[4][0])[0] == "opq" and sem.strip(v[4][0])[2][1] == "std::default::Default::default"
                        else:
                            ok = ok and v == ("fld", me, i, nm)
                    ck.ob("G6-enable-sets-only-its-slot", key, ok, "%s::enable_%s must set %s = Some(Default::default()) and keep every other field: %s" % (owner["name"], x, n, sem.fmt(outs[0].ret)[:200]),
                          sample={"fn": owner["name"] + "::enable_" + x})
                    continue
            body = mir.Body(fn)
            ret = body.origin_local(0)
            ok = ret[0] == "agg" and ret[1] == owner["path"] and list(ret[3]) == own_fields
            if ok:
                for fname_, o in zip(ret[3], ret[4]):
                    o = forward.leafify(o)
                    if fname_ == n:
                        ok = ok and o[0] == "agg" and o[2] == "Some" and o[4][0][0] == "call" and o[4][0][1] == "std::default::Default::default"
                    else:
                        ok = ok and o == ("field", ("arg", 1), fname_)
            ck.ob("G6-enable-sets-only-its-slot", key, ok, "%s::enable_%s must set %s = Some(Default::default()) and copy every other field: %s" % (owner["name"], x, n, mir.fmt(ret)[:200]),
                  sample={"fn": owner["name"] + "::enable_" + x})
    if grp.vtables is not None:
        df = [f for f in m.facts.fns(m.unit) if f.get("impl_trait") == "std::default::Default" and f.get("impl_self_adt") == grp.vtables["path"]]
        if ck.require(len(df) == 1, "Default for %s" % grp.vtables["name"]):
            body = mir.Body(df[0])
            ret = body.origin_local(0)
            ok = ret[0] == "agg"
            if ok:
                for fname_, o in zip(ret[3], ret[4]):
                    if fname_ in opt:
                        ok = ok and o[0] == "agg" and o[2] == "None"
                    else:
                        ok = ok and o[0] == "call" and o[1] == "std::default::Default::default"
            ck.ob("G6-default-table-empty", key0 + "/Vtables::default", ok, "Default for %s must leave every optional slot None: %s" % (grp.vtables["name"], mir.fmt(ret)[:200]))
    # fill_table of every implementing type
    fillers = [f for f in m.facts.fns(m.unit) if (f.get("impl_trait") or "").endswith("::%sVtableFiller" % grp.name) and f["name"] == "fill_table"]
    n_fill = 0
    for f in fillers:
        body = mir.Body(f)
        ret = body.origin_local(0)
        enabled = []
        o = ret
        ok = True
        while o[0] == "call" and "::enable_" in o[1]:
            enabled.append(o[1].rsplit("::enable_", 1)[1])
            o = o[2][0]
        ok = o == ("arg", 1)
        ty = f.get("impl_self", "")
        key = "%s/fill_table/%s" % (key0, ty)
        if ty.startswith("cglue::forward::Fwd<"):
            continue
        n_fill += 1
        ck.ob("G6-fill-table-shape", key, ok and len(set(enabled)) == len(enabled), "fill_table for %s is not a chain of distinct enable_* calls on its argument: %s" % (ty, mir.fmt(ret)[:160]))
        want = impl_expect.get(ty.rsplit("::", 1)[-1])
        if want is not None:
            ck.ob("G6-fill-table-enables-listed", key, sorted(enabled) == sorted(w.lower() for w in want),
                  "fill_table for %s enables %s, cglue_impl_group! listed %s" % (ty, sorted(enabled), sorted(want)), sample={"type": ty, "enabled": sorted(enabled)})
    # the forward list of cglue_impl_group! (what a forwarded `&mut T` provides) is independent of the owned one
    for f in m.facts.fns(m.unit):
        if not ((f.get("impl_trait") or "").endswith("::%sFwdVtableFiller" % grp.name) and f["name"] == "fill_fwd_table"):
            continue
        ty = f.get("impl_self", "")
        wantf = (fwd_expect or {}).get(ty.rsplit("::", 1)[-1])
        if wantf is None:
            continue
        o = mir.Body(f).origin_local(0)
        enabled = []
        while o[0] == "call" and "::enable_" in o[1]:
            enabled.append(o[1].rsplit("::enable_", 1)[1])
            o = o[2][0]
        key = "%s/fill_fwd_table/%s" % (key0, ty)
        n_fwd[0] += 1
        ck.ob("G6-fill-table-shape", key, o == ("arg", 1) and len(set(enabled)) == len(enabled), "fill_fwd_table for %s is not a chain of distinct enable_* calls on its argument" % ty)
        ck.ob("G6-fill-table-enables-listed", key, sorted(enabled) == sorted(w.lower() for w in wantf),
              "fill_fwd_table for %s enables %s, the forward list of cglue_impl_group! names %s" % (ty, sorted(enabled), sorted(wantf)), sample={"type": ty, "enabled": sorted(enabled)})
    # From<Container> for Group takes every slot from the filler's table
    for f in m.facts.fns(m.unit):
        if f.get("impl_trait") == "std::convert::From" and f.get("impl_self_adt") == grp.base["path"] and f["inputs"] and f["inputs"][0].startswith(grp.container["path"]):
            body = mir.Body(f)
            ret = body.origin_local(0)
            ok = ret[0] == "agg"
            if ok:
                for fname_, o in zip(ret[3], ret[4]):
                    o = forward.leafify(o)
                    if fname_ == "container":
                        ok = ok and o == ("arg", 1)
                    else:
                        ok = ok and o[0] == "field" and o[2] == fname_ and o[1][0] == "call" and o[1][1].endswith("VtableFiller::fill_table")
            ck.ob("G6-group-built-from-filled-table", key0 + "/From<Container>", ok, "From<%s> for %s does not take its vtable slots from fill_table(Default::default()): %s" % (grp.container["name"], grp.name, mir.fmt(ret)[:200]))
    # ---- G8 upcast ----------------------------------------------------------------------------------------
    for wn, w in sorted(grp.withs.items()):
        for f in m.facts.fns(m.unit):
            is_from = f.get("impl_trait") == "std::convert::From" and f.get("impl_self_adt") == grp.base["path"] and f["inputs"] and f["inputs"][0].split("<")[0] == w["path"]
            is_up = f.get("impl_self_adt") == w["path"] and "impl_trait" not in f and f["name"] == "upcast"
            if is_from or is_up:
                o = mir.Body(f).origin_local(0)
                direct = o[0] == "call" and o[1] == "cglue::trait_group::Opaquable::into_opaque" and o[2][0] == ("arg", 1)
                # `From<With>` and `upcast` may be written through each other: delegation to the sibling (itself checked here) with `self`
                sibling = o[0] == "call" and o[2] and o[2][0] == ("arg", 1) and len(o[2]) == 1 and (
                    (is_from and o[1].endswith("::%s::<" % wn + o[1].split("::%s::<" % wn)[-1]) and o[1].endswith("::upcast")) or
                    (is_up and o[1] in ("std::convert::From::from", "std::convert::Into::into")))
                ck.ob("G8-upcast-is-bit-preserving", "%s/%s/%s" % (key0, wn, f["name"]), direct or sibling,
                      "%s::%s is not into_opaque(self)" % (wn, f["name"]))
        im = m.opaquable_impls.get(w["path"])
        ck.ob("G8-with-opaque-target-is-group", "%s/%s" % (key0, wn), im is not None and im[0] == grp.base["path"], "Opaquable for %s does not target the group %s" % (wn, grp.name))
    return n_ops, n_fill, len(subsets)


def run(tier):
    ck = report.Check("C08", tier, level="other")
    cf = corpus.corpus_facts(tier)
    exp = corpus.expect(tier)
    ck.unit("corpus-%s" % tier)
    m = model.Model(cf)
    impl_expect = {}
    fwd_expect, n_fwd = {}, [0]
    for it in exp["items"]:
        if it["kind"] == "group":
            for im in it["impls"]:
                impl_expect[im["type"]] = im["enabled"]
                if "fwd_enabled" in im:
                    fwd_expect[im["type"]] = im["fwd_enabled"]
    tot_ops = tot_fill = tot_sub = 0
    for grp in m.groups:
        a, b, c = check_group(ck, m, grp, "corpus", impl_expect, fwd_expect, n_fwd)
        tot_ops, tot_fill, tot_sub = tot_ops + a, tot_fill + b, tot_sub + c
    ck.floor("corpus groups", len(m.groups), 5)
    ck.floor("forwarded fill_table implementations with a stated forward list", n_fwd[0], 1)
    ck.floor("cast operations (subset x op) in corpus", tot_ops, 40 if tier == "quick" else 150)
    ck.floor("fill_table implementations in corpus", tot_fill, 12 if tier == "quick" else 35)
    # With_S layout == group layout (compiler computed), for every With variant and every probe instantiation
    probes = {p["name"]: p for p in cf.probes() if p["name"].startswith("AUTO_")}
    from rules.c04 import same_layout
    n_l = 0
    for grp in m.groups:
        for wn in grp.withs:
            for n, p in probes.items():
                if n.startswith("AUTO_%s_" % wn) and "shape" in p:
                    bn = n.replace("AUTO_%s_" % wn, "AUTO_%s_" % grp.name, 1)
                    bp = probes.get(bn)
                    if bp is None or "shape" not in bp:
                        continue
                    n_l += 1
                    r = same_layout(p["shape"], bp["shape"])
                    ck.ob("G2-with-layout-equals-group", "corpus/%s/%s" % (wn, n.rsplit("_", 3)[1]) if False else "corpus/%s" % n, r is None,
                          "layout of %s differs from the group's: %s" % (p["ty"][:120], r), sample={"with": wn, "size": p["shape"].get("size")})
    ck.floor("With/group layout pairs", n_l, 100)
    ct = facts.cfg_cglue(tests=True)
    ck.unit("cglue --tests")
    m2 = model.Model(ct, "cglue-test")
    for grp in m2.groups:
        check_group(ck, m2, grp, "cglue-tests", {})
    ex = facts.cfg_examples()
    ck.unit("examples")
    m3 = model.Model(ex)
    for grp in m3.groups:
        check_group(ck, m3, grp, "examples", {})
    ck.extra["subsets_enumerated_in_corpus"] = tot_sub
    return ck.finish(
        "for every generated group, every non-empty subset of its optional slots and each of check/as_ref/as_mut/cast/into: the set of slots "
        "validated with `?` equals the requested set and equals the set of slots the target variant requires, the success site is dominated by all "
        "validations and nothing else decides success; fillers (enable_*, Default, fill_table per implementing type, From<Container>) set exactly the "
        "listed slots; With-variants have the group's compiler-computed layout; upcast is into_opaque",
        rule_text="obligation = one (group, subset, operation, clause); subsets enumerated exhaustively from the group's own field list",
        trusted=["`?` on Option returns None exactly for None (language)", "rustc layout_of"],
        exhaustive=True)
