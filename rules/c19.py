"""C19 -- a waker crossing the boundary wakes the original and is released once (feature `task`).

W1 acquire: waker_clone makes exactly one clone of the caller's Waker and stores its bits in a new CRawWaker record.
W2 shared-record consumers (ledger L7): the vtable slots of the record whose implementations consume the bits (transmute bits -> owned
   Waker) may be invoked only from `<CRawWaker as Drop>::drop`; the per-handle functions given to RawWakerVTable::new invoke only
   non-consuming slots.
W3 handle balance: in RawWakerVTable::new(clone, wake, wake_by_ref, drop) of the owned waker, clone nets -1 (one more handle),
   wake and drop net +1 (release this handle), wake_by_ref 0.
W4 borrowed view: the vtable built in with_waker is (clone, unreachable, wake_by_ref, no-op); its clone calls the stored clone once
   and wraps the record in a fresh reference-counted handle; the temporary Waker is only lent to the callback.
W5 each wake path calls the underlying wake function exactly once.
Schedules: all cross-thread state is inside BaseArc's atomics and the caller's waker; the rules are schedule-independent.
"""
from lib import facts, mir, report, ledger, forward, sem

T = "cglue::task::"


def icalls(body):
    return [(i, t) for i, t in body.calls() if t.get("callee") is None]


def slot_of_icall(body, t):
    o = mir.deepstrip(body.origin_operand(t["f"]))
    if o[0] == "field":
        return o[2], o[1]
    return None, None


def run(tier):
    ck = report.Check("C19", tier, level="other")
    f = facts.cfg_cglue(features="task,futures")
    ck.unit("cglue lib (task,futures): task/mod.rs")
    fns = {x["path"]: x for x in f.fns("cglue-lib") if "/task/mod.rs" in x["span"] and "::tests::" not in x["path"]}
    ck.floor("functions in task/mod.rs", len(fns), 18)
    summ = {}
    for p, fn in fns.items():
        body, sites, nets, loops = ledger.fn_summary(fn, role_slots={})
        summ[p] = (fn, body, sites, nets, loops)

    def net_with_callees(p, depth=0):
        """Uniform net of a function including direct calls to other task functions (None if not uniform)."""
        fn, body, sites, nets, loops = summ[p]
        if nets is None or len(nets) != 1:
            return None
        k = list(nets)[0]
        if depth < 3:
            for _, t in body.calls():
                cp = mir.callee_res(t) or ""
                if cp in summ and cp != p:
                    ck_ = net_with_callees(cp, depth + 1)
                    if ck_ is None:
                        return None
                    k += ck_
        return k

    # ---- record vtable: which slots consume the bits --------------------------------------------------
    dflt = [x for p, x in fns.items() if p == "<&'static cglue::task::OpaqueRawWakerVtbl as std::default::Default>::default"]
    if not ck.require(len(dflt) == 1, "Default for &OpaqueRawWakerVtbl"):
        return ck.finish("anchor missing")
    slots = {}
    for pb in dflt[0].get("promoted", []):
        b = mir.Body(dflt[0], pb)
        for bb in pb["blocks"]:
            for s in bb["s"]:
                if s["k"] == "assign" and s["r"]["k"] == "agg" and s["r"].get("adt") == T + "OpaqueRawWakerVtbl":
                    for name, op in zip(s["r"]["fields"], s["r"]["ops"]):
                        o = b.origin_operand(op)
                        while o[0] == "cast":
                            o = o[2]
                        if o[0] == "fnconst":
                            slots[name] = o[1]
    ck.ob("W-record-vtable-complete", "task/OpaqueRawWakerVtbl", sorted(slots) == ["clone", "drop", "wake", "wake_by_ref"], "record vtable slots found: %s" % sorted(slots))
    consuming = set()
    for name, p in slots.items():
        if p in summ and summ[p][3] is not None and set(summ[p][3]) == {1}:
            consuming.add(name)
    ck.ob("W2-consuming-slots-identified", "task/OpaqueRawWakerVtbl", consuming == {"wake", "drop"},
          "slots whose implementation turns the shared bits into an owned Waker: %s (expected wake, drop)" % sorted(consuming), sample={"consuming": sorted(consuming)})
    # implementations: wake / wake_by_ref call the underlying function once (W5)
    for name, callee in (("wake", "std::task::Waker::wake"), ("wake_by_ref", "std::task::Waker::wake_by_ref")):
        p = slots.get(name)
        if p in summ:
            body = summ[p][1]
            cs = [(i, t) for i, t in body.calls() if (mir.callee_path(t) or "") == callee]
            direct = len(cs) == 1 and body.on_all_paths_to_return(cs[0][0]) and not body.in_cycle(cs[0][0])
            if not direct:
                # through a local helper: on every path of the summary (helpers of task/mod.rs stepped into) exactly one such call happens
                ev = sem.Evaluator(fns, {}, inline=lambda q: q in fns)
                outs = ev.run(fns[p], [("sym", "w")])
                direct = bool(outs) and all(o.kind == "ret" and len(o.calls(callee)) == 1 for o in outs)
            ck.ob("W5-record-slot-wakes-once", "task/" + p, direct,
                  "%s must call %s exactly once" % (p, callee), sample={"fn": p})
    # ---- W2: who invokes consuming slots --------------------------------------------------------------------
    n_inv = 0
    has_drop_impl = False
    for p, (fn, body, sites, nets, loops) in sorted(summ.items()):
        for i, t in icalls(body):
            name, base = slot_of_icall(body, t)
            if name in slots and mir.contains(base, lambda x: x[0] == "field" and x[2] == "vtable"):
                n_inv += 1
                is_record_drop = fn.get("impl_trait") == "std::ops::Drop" and fn.get("impl_self_adt") == T + "CRawWaker"
                if is_record_drop:
                    has_drop_impl = True
                if name in consuming:
                    ck.ob("W2-consuming-slot-only-from-record-drop", "task/%s/%s" % (p, name), is_record_drop,
                          "%s (%s) invokes the consuming slot `%s` of the shared waker record: every clone of the foreign-side waker shares one set of waker bits, "
                          "so a per-handle function that consumes them releases the caller's waker once per handle" % (p, fn["span"], name),
                          detail={"fn": p, "slot": name})
                else:
                    ck.ob("W2-non-consuming-slot-use", "task/%s/%s" % (p, name), True, sample={"fn": p, "slot": name})
                # the bits passed are the record's own
                a = mir.deepstrip(body.origin_operand(t["args"][0]))
                ck.ob("W2-slot-gets-own-bits", "task/%s/%s" % (p, name), a[0] == "field" and a[2] == "waker" and base[0] == "field" and mir.erase_callsites(a[1]) == mir.erase_callsites(base[1]),
                      "%s passes %s to the record's `%s` slot instead of the record's own waker bits" % (p, mir.fmt(a)[:100], name))
    ck.floor("invocations of record vtable slots", n_inv, 2)
    ck.ob("W2-record-releases-bits-once", "task/CRawWaker", has_drop_impl,
          "CRawWaker has no Drop impl invoking its `drop` slot: the cloned waker stored in the record is never released by the record itself")
    rd = [x for p, x in fns.items() if x.get("impl_trait") == "std::ops::Drop" and x.get("impl_self_adt") == T + "CRawWaker"]
    if rd:
        body = mir.Body(rd[0])
        ic = icalls(body)
        ok = len(ic) == 1 and slot_of_icall(body, ic[0][1])[0] == "drop" and body.on_all_paths_to_return(ic[0][0]) and not body.in_cycle(ic[0][0])
        ck.ob("W2-record-drop-calls-drop-slot-once", "task/CRawWaker::drop", ok, "Drop for CRawWaker must call its own `drop` slot exactly once")
    # ---- W3: owned waker vtable ---------------------------------------------------------------------------------
    tr = fns.get(T + "CRawWaker::to_raw")
    want = {"clone": -1, "wake": 1, "wake_by_ref": 0, "drop": 1}
    if ck.require(tr is not None, "CRawWaker::to_raw"):
        pos = None
        for pb in tr.get("promoted", []) + [tr["body"]]:
            b = mir.Body(tr, pb)
            for i, t in b.calls():
                if (mir.callee_path(t) or "").endswith("RawWakerVTable::new"):
                    pos = [b.origin_operand(a) for a in t["args"]]
        if ck.require(pos is not None and len(pos) == 4, "RawWakerVTable::new in to_raw"):
            for role, o in zip(("clone", "wake", "wake_by_ref", "drop"), pos):
                while o[0] == "cast":
                    o = o[2]
                p = o[1] if o[0] == "fnconst" else None
                k = net_with_callees(p) if p in summ else None
                ck.ob("W3-handle-balance", "task/to_raw/" + role, k == want[role],
                      "owned waker `%s` (%s) has net handle effect %s, expected %+d" % (role, p, k, want[role]), sample={"role": role, "fn": p, "net": k})
                if p in summ and role in ("wake", "wake_by_ref"):
                    body = summ[p][1]
                    ic = icalls(body)
                    ok = len(ic) == 1 and body.on_all_paths_to_return(ic[0][0]) and slot_of_icall(body, ic[0][1])[0] == "wake_by_ref"
                    if not ok:
                        # through local helpers: every path of the summary performs exactly one indirect call, and it goes through a
                        # `wake_by_ref` slot of the record's vtable
                        ev = sem.Evaluator(fns, {}, inline=lambda q: q in fns)
                        outs = ev.run(fns[p], [("sym", "data")])
                        ok = bool(outs) and all(o.kind == "ret" and len([e for e in o.effects if e[0] == "icall"]) == 1 and
                                                sem.strip([e for e in o.effects if e[0] == "icall"][0][1])[0] == "fld" and
                                                sem.strip([e for e in o.effects if e[0] == "icall"][0][1])[3] == "wake_by_ref" for o in outs)
                    if role == "wake":
                        # the handle keeps the shared record (and with it the caller's waker clone) alive: it may be released only after the
                        # record's wake_by_ref entry has returned
                        ev2 = sem.Evaluator(fns, {}, inline=lambda q: q in fns)
                        outs2 = ev2.run(fns[p], [("sym", "data")])
                        order_ok = bool(outs2)
                        for o2 in outs2:
                            idx_call = [k for k, e in enumerate(o2.effects) if e[0] == "icall"]
                            idx_rel = [k for k, e in enumerate(o2.effects) if (e[0] == "drop" and "BaseArc" in (e[2] or "")) or
                                       (e[0] == "call" and e[1] in ("std::mem::drop", "core::mem::drop") and sem.contains(e[2][0], lambda x: x[0] == "opq" and x[2][0] == "call" and x[2][1].endswith("BaseArc::<T>::from_raw")))]
                            order_ok = order_ok and o2.kind == "ret" and len(idx_call) == 1 and bool(idx_rel) and all(k > idx_call[0] for k in idx_rel)
                        ck.ob("W6-wake-before-release", "task/" + p, order_ok,
                              "%s releases its handle before the record's wake_by_ref entry has run: if it was the last handle the caller's waker clone is already released when it is woken" % p)
                    ck.ob("W5-owned-waker-wakes-once", "task/" + p, ok, "%s must wake the shared record exactly once through its wake_by_ref slot" % p)
        # to_raw itself leaks the handle into the RawWaker data pointer
        o = mir.Body(tr).origin_local(0)
        ck.ob("W3-to-raw-leaks-one-handle", "task/to_raw", net_with_callees(T + "CRawWaker::to_raw") == -1 and o[0] == "call" and o[1].endswith("RawWaker::new"),
              "to_raw must turn exactly one BaseArc handle into the RawWaker data pointer")
    # ---- W1 ----------------------------------------------------------------------------------------------------------------
    wc = fns.get(T + "waker_clone")
    if ck.require(wc is not None, "waker_clone"):
        fn, body, sites, nets, loops = summ[T + "waker_clone"]
        cl = [(i, t) for i, t in body.calls() if (mir.callee_path(t) or "") == "std::clone::Clone::clone" and "Waker" in " ".join(t["callee"].get("args", []))]
        ok = len(cl) == 1 and nets is not None and set(nets) == {-1} and [s.kind for s in sites] == ["transmute_to_bits"]
        if ok:
            ret = body.origin_local(0)
            ok = ret[0] == "agg" and ret[1] == T + "CRawWaker"
            if ok:
                w = dict(zip(ret[3], ret[4]))["waker"]
                ok = w[0] == "cast" and w[1] == "Transmute" and w[2][0] == "call" and w[2][3] == cl[0][0]
        ck.ob("W1-one-clone-stored-as-bits", "task/waker_clone", ok, "waker_clone must clone the caller's Waker exactly once and store exactly that clone's bits in the new record")
    # ---- W4: borrowed view ---------------------------------------------------------------------------------------------------
    ww = fns.get(T + "CRefWaker::<'a>::with_waker")
    if ck.require(ww is not None, "CRefWaker::with_waker"):
        pos = None
        for pb in ww.get("promoted", []) + [ww["body"]]:
            b = mir.Body(ww, pb)
            for i, t in b.calls():
                if (mir.callee_path(t) or "").endswith("RawWakerVTable::new"):
                    pos = [b.origin_operand(a) for a in t["args"]]
        if ck.require(pos is not None and len(pos) == 4, "RawWakerVTable::new in with_waker"):
            ps = []
            for o in pos:
                while o[0] == "cast":
                    o = o[2]
                ps.append(o[1] if o[0] == "fnconst" else None)
            cfn, wfn, rfn, dfn = [fns.get(p) for p in ps]
            # wake position must never return (a borrowed waker cannot be consumed); drop position is a no-op
            okw = wfn is not None and not mir.Body(wfn).return_blocks()
            okd = dfn is not None and not mir.Body(dfn).calls() and not ledger.prim_sites(mir.Body(dfn))
            ck.ob("W4-borrowed-wake-unreachable", "task/with_waker/wake", okw, "the borrowed view's `wake` (%s) must not be callable (unreachable)" % ps[1])
            ck.ob("W4-borrowed-drop-noop", "task/with_waker/drop", okd, "the borrowed view's `drop` (%s) must do nothing: the view does not own the caller's waker" % ps[3])
            if cfn is not None:
                b = mir.Body(cfn)
                ic = icalls(b)
                ok = len(ic) == 1 and slot_of_icall(b, ic[0][1])[0] == "clone" and b.on_all_paths_to_return(ic[0][0])
                if ok:
                    ret = b.origin_local(0)
                    ok = ret[0] == "call" and ret[1] == T + "CRawWaker::to_raw" and ret[2][0][0] == "call" and ret[2][0][1] == "tarc::BaseArc::<T>::new" and ret[2][0][2][0][0] == "icall"
                    a = mir.deepstrip(b.origin_operand(ic[0][1]["args"][0]))
                    ok = ok and mir.contains(a, lambda x: x[0] == "field" and x[2] == "raw")
                if not ok:
                    # semantic form (private accessors of the view stepped into): stored clone called once on the view's own `raw`, its record
                    # wrapped by BaseArc::new, that handle turned into the RawWaker by to_raw
                    ev = sem.Evaluator(fns, {}, inline=lambda q: q in fns and q != T + "CRawWaker::to_raw")
                    data = ("sym", "data")
                    outs = ev.run(cfn, [data])
                    if len(outs) == 1 and outs[0].kind == "ret":
                        o = outs[0]
                        ics = [e for e in o.effects if e[0] == "icall"]
                        news = o.calls("BaseArc::<T>::new")
                        tor = o.calls("CRawWaker::to_raw")
                        ok = len(ics) == 1 and len(news) == 1 and len(tor) == 1
                        if ok:
                            fval = sem.strip(ics[0][1])
                            own_raw = sem.contains(ics[0][2][0], lambda x: x[0] == "fld" and x[3] == "raw" and sem.contains(x, lambda y: y == data))
                            rec = sem.strip(news[0][2][0])
                            hnd = sem.strip(tor[0][2][0])
                            r = sem.strip(o.ret)
                            ok = fval[0] == "fld" and fval[3] == "clone" and sem.contains(fval, lambda y: y == data) and own_raw \
                                and rec[0] == "opq" and rec[2][0] == "icall" and hnd[0] == "opq" and hnd[1] == news[0][3] and r[0] == "opq" and r[1] == tor[0][3]
                ck.ob("W4-borrowed-clone-makes-real-clone", "task/with_waker/clone", ok, "cloning the borrowed view must call the stored clone once on its own `raw` and wrap the record in BaseArc::new -> to_raw")
            if rfn is not None:
                b = mir.Body(rfn)
                ic = icalls(b)
                ok = len(ic) == 1 and slot_of_icall(b, ic[0][1])[0] == "wake_by_ref" and b.on_all_paths_to_return(ic[0][0])
                ck.ob("W5-borrowed-wake-by-ref-once", "task/with_waker/wake_by_ref", ok, "wake_by_ref of the borrowed view must call the stored wake_by_ref exactly once")
        # the temporary Waker is only lent
        b = mir.Body(ww)
        wl = [t["d"]["l"] for _, t in b.calls() if (mir.callee_path(t) or "").endswith("Waker::from_raw")]
        ok = len(wl) == 1
        if ok:
            moved = [t for _, t in b.calls() for a in t["args"] if "m" in a and a["m"]["l"] == wl[0] and not a["m"]["p"]]
            ok = not moved and b.origin_local(0)[0] in ("call", "icall")
        ck.ob("W4-temporary-waker-only-lent", "task/with_waker", ok, "with_waker must hand the temporary Waker to the callback by reference only")
    wr = fns.get(T + "waker_wake_by_ref")
    if ck.require(wr is not None, "waker_wake_by_ref"):
        b = mir.Body(wr)
        cs = [(i, t) for i, t in b.calls() if (mir.callee_path(t) or "") == "std::task::Waker::wake_by_ref"]
        ck.ob("W5-caller-waker-woken-once", "task/waker_wake_by_ref", len(cs) == 1 and b.on_all_paths_to_return(cs[0][0]) and not ledger.prim_sites(b),
              "waker_wake_by_ref must call Waker::wake_by_ref on the caller's waker exactly once and not take ownership")
    return ck.finish(
        "ledger rules on the shared waker record (which vtable slots consume the stored waker bits, who may invoke them), handle balance of the four "
        "functions given to each RawWakerVTable (net effect incl. callees), exactly-once wake calls on every wake path, and the borrowed view's "
        "(clone, unreachable, wake_by_ref, no-op) vtable",
        rule_text="obligation = one (function or vtable position, W-rule)",
        trusted=["tarc::BaseArc is a correct reference count that drops its payload with the last handle", "std::task::Waker/RawWaker contract"])
