"""C13 -- integer result codes: 0 means success and the output slot is initialised.

Arm rules on the four helper functions (which arm writes / reads the slot, which constant each arm returns), the NonZeroI32 type
contract of IntError, a small constant/non-zero dataflow on the shipped IntError impls, and per-method plumbing rules on every
generated int-result method of the corpus and the repository.
"""
from lib import corpus, facts, mir, model, report, sem

NZ_NEW = "std::num::NonZero::<T>::new"
NZ_GET = "std::num::NonZero::<T>::get"
NZ_UNCHECKED = "new_unchecked"
RES = "cglue::result::"


def cp(t):
    return mir.callee_path(t) or ""


def find_fn(f, path, unit=None):
    v = f.fn(path, unit)
    return v[0] if v else None



# ---- semantic (case-summary) form of the helper rules; the shape rules below remain as the fallback when a body cannot be summarised ----
def _evaluator(f, unit):
    fns = {x["path"]: x for x in f.fns(unit)}
    adts = {a["path"]: a for a in f.adts(unit)}
    crate = ("cglue::", "<cglue::", "plugin_api::", "<plugin_api::", "cgv_controls::", "<cgv_controls::")
    return sem.Evaluator(fns, adts, inline=lambda p: p.startswith(crate) or "::{closure" in p)


def _mentions(v, term):
    return sem.contains(v, lambda x: x == term) or v == term


def _cond(o, kind, term, val=None):
    return any(c[0] == kind and c[1] == term and (val is None or c[2] == val) for c in o.conds)


def check_into(ck, fn, with_out, ev=None):
    """Per case of the argument: Ok -> 0 is returned and (with an output slot) the payload is written into it exactly once;
    Err -> the code is get(into_int_err(e)) of that very error and the slot is not touched."""
    key = fn["path"]
    ev = ev or _evaluator(facts.cfg_cglue(), "cglue-lib")
    res, slot = ("sym", "res"), ("sym", "ok_out")
    ev.hint(res, "std::result::Result")
    args = [res] + ([slot] if with_out else [])
    outs = ev.run(fn, args)
    if any(o.kind == "stuck" for o in outs):
        return shape_check_into(ck, fn, with_out)
    oks = [o for o in outs if _cond(o, "discr", res, "Ok")]
    errs = [o for o in outs if _cond(o, "discr", res, "Err")]
    if not ck.ob("I-dispatch-on-result", key, len(oks) >= 1 and len(errs) >= 1 and len(oks) + len(errs) == len(outs) and all(o.kind == "ret" for o in outs),
                 "%s does not decide by the variant of its Result argument (or can panic): %s" % (key, outs)):
        return
    pay_ok, pay_err = ("pay", res, "Ok", 0), ("pay", res, "Err", 0)
    for o in oks:
        writes = [e for e in o.calls() if e[1].endswith("::write") and any(_mentions(a, slot) for a in e[2][:1])]
        if with_out:
            good = len(writes) == 1 and sem.strip(writes[0][2][-1]) == pay_ok and \
                not any(e[0] == "drop" and _mentions(e[1], pay_ok) for e in o.effects) and \
                sum(1 for e in o.effects if e[0] in ("call", "icall") and any(_mentions(a, pay_ok) for a in e[2])) == 1
            if not writes:
                # the store form `*ok_out = MaybeUninit::new(v)`: MaybeUninit has no drop glue, so the assignment is a plain store of the
                # payload into the slot (nothing that was there is read or dropped)
                def is_new_of_payload(v):
                    v = sem.strip(v)
                    return v[0] == "opq" and v[2][0] == "call" and v[2][1].endswith("MaybeUninit::<T>::new") and len(v[2][2]) == 1 and sem.strip(v[2][2][0]) == pay_ok
                stores = [(k, v) for k, v in o.state.over.items() if k[0] == ("ext", slot)]
                good = len(stores) == 1 and not stores[0][0][1] and is_new_of_payload(stores[0][1]) and \
                    not any(e[0] == "drop" and _mentions(e[1], pay_ok) for e in o.effects) and \
                    sum(1 for e in o.effects if e[0] in ("call", "icall") and any(_mentions(a, pay_ok) for a in e[2])) == 1
            ck.ob("I-ok-writes-once", key, good, "%s: the Ok case must move the payload into ok_out exactly once: %s" % (key, o), sample={"fn": key, "case": repr(o)[:200]})
        if not with_out:
            # without an output slot the success value ends here: it is dropped (once) and not stored anywhere
            drops = [e for e in o.effects if e[0] == "drop" and (_mentions(e[1], pay_ok) or sem.strip(e[1]) == res or _mentions(e[1], res))]
            stored = [e for e in o.effects if e[0] in ("call", "icall") and any(_mentions(a, pay_ok) for a in e[2])]
            ck.ob("I-ok-payload-consumed", key, len(drops) == 1 and not stored,
                  "%s: the Ok payload must be dropped exactly once (no slot to move it to): drops=%d, handed to %s" % (key, len(drops), [e[1] for e in stored]))
        ck.ob("I-ok-returns-zero", key, o.ret == ("const", 0), "%s: the Ok case returns %s, not 0" % (key, sem.fmt(o.ret)))
        ck.ob("I-ok-no-err-call", key, not o.calls("into_int_err"), "%s encodes an error on the Ok case" % key)
    for o in errs:
        enc = o.calls("IntError::into_int_err")
        good = len(enc) == 1 and sem.strip(enc[0][2][0]) == pay_err
        if good:
            r = sem.strip(o.ret)
            good = r[0] == "opq" and r[2][0] == "nzget" and sem.strip(r[2][1])[0] == "opq" and sem.strip(r[2][1])[1] == enc[0][3]
        ck.ob("I-err-returns-nonzero-code", key, good, "%s: the Err case must return NonZeroI32::get(into_int_err(e)) of its own error: %s" % (key, o),
              sample={"fn": key, "err_case": repr(o)[:200]})
        if with_out:
            touch = [e for e in o.effects if e[0] in ("call", "icall") and any(_mentions(a, slot) for a in e[2])]
            ck.ob("I-err-leaves-slot", key, not touch and not o.state.over_touches(slot), "%s touches ok_out on the Err case: %s" % (key, o))


def check_from(ck, fn, with_val, ev=None):
    """code == 0 -> Ok(slot value read exactly once / unit); code != 0 -> Err(from_int_err(code)) and the slot is never read."""
    key = fn["path"]
    ev = ev or _evaluator(facts.cfg_cglue(), "cglue-lib")
    code, slot = ("sym", "code"), ("sym", "slot")
    outs = ev.run(fn, [code] + ([slot] if with_val else []))
    if any(o.kind == "stuck" for o in outs):
        return shape_check_from(ck, fn, with_val)
    zero = [o for o in outs if _cond(o, "eq", code, 0)]
    nonz = [o for o in outs if _cond(o, "ne", code, (0,))]
    if not ck.ob("F-dispatch-on-nonzero", key, len(zero) >= 1 and len(nonz) >= 1 and len(zero) + len(nonz) == len(outs) and all(o.kind == "ret" for o in outs),
                 "%s does not decide by code == 0 / code != 0 (or can panic): %s" % (key, outs)):
        return
    for o in zero:
        reads = [e for e in o.calls() if e[1].endswith("assume_init") or e[1].endswith("assume_init_read")]
        r = sem.strip(o.ret)
        is_ok = r[0] == "agg" and r[3] == "Ok"
        ck.ob("F-variant-by-code", "%s/Ok" % key, is_ok and not o.calls("from_int_err"), "%s: code 0 yields %s" % (key, sem.fmt(o.ret)))
        if with_val:
            good = is_ok and len(reads) == 1 and sem.strip(reads[0][2][0]) == slot and sem.strip(r[4][0])[0] == "opq" and sem.strip(r[4][0])[1] == reads[0][3]
            ck.ob("F-assume-init-only-on-zero", key, good, "%s: for code 0 the Ok payload must be the slot value, read exactly once: %s" % (key, o),
                  sample={"fn": key, "zero_case": repr(o)[:200]})
        else:
            # a slot the function made itself out of `()` (delegation to the payload-carrying sibling) is not an input slot
            foreign = [e for e in reads if not (sem.strip(e[2][0])[0] == "opq" and sem.strip(e[2][0])[2][0] == "call" and sem.strip(e[2][0])[2][1].endswith("MaybeUninit::<T>::new"))]
            ck.ob("F-no-slot", key, not foreign, "%s reads a slot although it has none" % key)
    for o in nonz:
        reads = [e for e in o.calls() if e[1].endswith("assume_init") or e[1].endswith("assume_init_read")]
        dec = o.calls("IntError::from_int_err")
        r = sem.strip(o.ret)
        good = r[0] == "agg" and r[3] == "Err" and len(dec) == 1 and sem.strip(dec[0][2][0]) == ("nz", code) and sem.strip(r[4][0])[0] == "opq" and sem.strip(r[4][0])[1] == dec[0][3]
        ck.ob("F-err-decoded-from-code", key, good, "%s: a non-zero code must yield Err(from_int_err(code)): %s" % (key, o))
        ck.ob("F-variant-by-code", "%s/Err" % key, r[0] == "agg" and r[3] == "Err", "%s: a non-zero code yields %s" % (key, sem.fmt(o.ret)))
        if with_val:
            ck.ob("F-assume-init-only-on-zero", key + "/nonzero", not reads, "%s reads the output slot although the code is not 0: %s" % (key, o))


def shape_check_into(ck, fn, with_out):
    body = mir.Body(fn)
    key = fn["path"]
    allsw = mir.discr_switches(body)
    sws = [s for s in allsw if s[1] == ("discr", ("arg", 1))]
    # the dispatching switch dominates every other one; later switches on the same discriminant are drop elaboration
    first = [s for s in sws if all(body.dominates(s[0], o[0]) for o in allsw)]
    if not ck.ob("I-dispatch-on-result", key, len(first) == 1 and len(sws) == len(allsw) and set(mir.enum_arms(body, first[0])) == {0, 1},
                 "%s does not dispatch on the discriminant of its Result argument" % key):
        return
    arms = mir.enum_arms(body, first[0])
    ok_b, err_b = mir.dominated(body, arms.get(0)), mir.dominated(body, arms.get(1))
    # Ok arm
    ok_calls = mir.calls_in(body, ok_b)
    writes = [(i, t) for i, t in ok_calls if cp(t).endswith("::write")]
    if with_out:
        good = False
        if len(writes) == 1:
            t = writes[0][1]
            dst = mir.strip(body.origin_operand(t["args"][0]))
            while dst[0] == "call" and dst[1].endswith("as_mut_ptr"):
                dst = mir.strip(dst[2][0])
            val = body.origin_operand(t["args"][1])
            good = dst == ("arg", 2) and val == ("field", ("downcast", ("arg", 1), "Ok"), "0") and not body.in_cycle(writes[0][0])
        ck.ob("I-ok-writes-once", key, good, "%s: the Ok arm must move the payload into ok_out exactly once (found %d writes)" % (key, len(writes)),
              sample={"fn": key, "ok_arm_writes": len(writes)})
    zero = [r for _, r, k in mir.assigns_to(body, 0, ok_b) if k == "rv"]
    ck.ob("I-ok-returns-zero", key, len(zero) == 1 and body.origin_rvalue(zero[0]) == ("const", 0, "i32"),
          "%s: the Ok arm does not return the constant 0" % key)
    ck.ob("I-ok-no-err-call", key, not any("into_int_err" in cp(t) for _, t in ok_calls), "%s encodes an error on the Ok arm" % key)
    # Err arm
    err_calls = mir.calls_in(body, err_b)
    touches = []
    for i, t in err_calls:
        for a in t["args"]:
            if mir.contains(body.origin_operand(a), lambda o: o == ("arg", 2)):
                touches.append(cp(t))
    if with_out:
        ck.ob("I-err-leaves-slot", key, not touches, "%s touches ok_out on the Err arm via %s" % (key, touches))
    rets = mir.assigns_to(body, 0, err_b)
    good = False
    if len(rets) == 1 and rets[0][2] == "call":
        o = body.origin_local(0)
        # _0 has two defs -> phi; pick the call one
        for d in body.defs().get(0, []):
            if d[0] in err_b and d[2] == "call":
                oc = body._origin_def(d, 0)
                good = oc[0] == "call" and oc[1] == NZ_GET and oc[2][0][0] == "call" and oc[2][0][1] == RES + "IntError::into_int_err" \
                    and oc[2][0][2][0] == ("field", ("downcast", ("arg", 1), "Err"), "0")
    ck.ob("I-err-returns-nonzero-code", key, good, "%s: the Err arm must return NonZeroI32::get(into_int_err(e)) of its own error" % key,
          sample={"fn": key, "err_arm": "get(into_int_err(e))"})
    ck.ob("I-two-returns", key, len(body.defs().get(0, [])) == 2, "%s assigns its return value outside the two arms" % key)


def shape_check_from(ck, fn, with_val):
    body = mir.Body(fn)
    key = fn["path"]
    sws = mir.discr_switches(body)
    ok = len(sws) == 1 and sws[0][1][0] == "discr" and sws[0][1][1][0] == "call" and sws[0][1][1][1] == NZ_NEW and sws[0][1][1][2][0] == ("arg", 1)
    if not ck.ob("F-dispatch-on-nonzero", key, ok, "%s does not dispatch on NonZeroI32::new(code)" % key):
        return
    arms = mir.enum_arms(body, sws[0])
    if not ck.ob("F-dispatch-on-nonzero", key + "/arms", set(arms) == {0, 1}, "%s does not separate NonZeroI32::new(code) = None from Some" % key):
        return
    none_b, some_b = mir.dominated(body, arms.get(0)), mir.dominated(body, arms.get(1))
    ai = [(i, t) for i, t in body.calls() if cp(t).endswith("::assume_init") or cp(t).endswith("assume_init_read")]
    if with_val:
        ck.ob("F-assume-init-only-on-zero", key, len(ai) == 1 and ai[0][0] in none_b and mir.strip(body.origin_operand(ai[0][1]["args"][0])) == ("arg", 2),
              "%s: assume_init of the output slot must happen exactly once and only when the code is 0 (found %d, in zero-arm: %s)"
              % (key, len(ai), [i in none_b for i, _ in ai]), sample={"fn": key, "assume_init_sites": len(ai)})
    else:
        ck.ob("F-no-slot", key, not ai, "%s reads a slot although it has none" % key)
    # variants built per arm
    for i in sorted(body.live_blocks()):
        for s in body.blocks[i]["s"]:
            if s["k"] == "assign" and s["r"]["k"] == "agg" and s["r"].get("adt", "").endswith("result::Result") and s["p"]["l"] == 0:
                v = s["r"]["variant"]
                ck.ob("F-variant-by-code", "%s/%s" % (key, v), (v == "Ok" and i in none_b) or (v == "Err" and i in some_b),
                      "%s builds %s on the wrong arm of the zero test" % (key, v))
                if v == "Err":
                    o = body.origin_operand(s["r"]["ops"][0])
                    ck.ob("F-err-decoded-from-code", key, o[0] == "call" and o[1] == RES + "IntError::from_int_err"
                          and o[2][0] == ("field", ("downcast", sws[0][1][1], "Some"), "0"),
                          "%s: Err payload is not from_int_err(code): %s" % (key, mir.fmt(o)))
                if v == "Ok" and with_val:
                    o = body.origin_operand(s["r"]["ops"][0])
                    ck.ob("F-ok-from-slot", key, o[0] == "call" and o[1].endswith("assume_init"), "%s: Ok payload is not the slot value: %s" % (key, mir.fmt(o)))


def nonzero_argument(body, t, adts=None):
    """Is the operand of NonZeroI32::new provably non-zero?  (constant != 0, x guarded by `x == 0` -> constant, or the
    discriminant of a fieldless enum whose declared discriminants are all non-zero)."""
    arg = t["args"][0]
    o = body.origin_operand(arg)
    if o[0] == "const":
        return o[1] != 0, "constant %d" % o[1]
    oc = o
    while oc[0] == "cast" and oc[1] == "IntToInt":
        oc = oc[2]
    if oc[0] == "discr" and oc[1][0] == "arg" and adts is not None:
        ty = body.locals[oc[1][1]]["ty"].split("<")[0]
        a = adts.get(ty)
        if a and a["kind"] == "enum" and all(v["discr"] is not None and int(v["discr"]) != 0 and not v["fields"] for v in a["variants"]):
            return True, "discriminant of %s (all declared discriminants non-zero: %s)" % (ty, [int(v["discr"]) for v in a["variants"]])
    if o[0] == "phi":
        # locate the defining blocks
        loc = None
        if "c" in arg:
            loc = arg["c"]["l"]
        elif "m" in arg:
            loc = arg["m"]["l"]
        # follow single copies
        seen = 0
        while loc is not None and len(body.defs().get(loc, [])) == 1 and seen < 6:
            d = body.defs()[loc][0]
            if d[2] == "rv" and d[3]["k"] == "use" and ("c" in d[3]["o"] or "m" in d[3]["o"]):
                pl = d[3]["o"].get("c") or d[3]["o"].get("m")
                if pl["p"]:
                    break
                loc = pl["l"]
                seen += 1
            else:
                break
        defs = body.defs().get(loc, [])
        # every definition reaching the operand is a non-zero constant, or a value x assigned where a zero test on x has already
        # taken its non-zero side (`if x == 0 {c} else {x}`, `if x != 0 {x} else {c}`, `match x { 0 => c, e => e }`, `Some(e) if e != 0`)
        tests = mir.zero_tests(body)
        good = bool(defs)
        for d in defs:
            od = body._origin_def(d, 0)
            if od[0] == "const" and od[1] != 0:
                continue
            xs = mir.deepstrip(od)
            if any(mir.deepstrip(x) == xs and nz != z and len(body._pred[nz]) == 1 and body.dominates(nz, d[0]) for (_, x, z, nz) in tests):
                continue
            good = False
        if good:
            return True, "non-zero constant, or x where x != 0 has been tested"
    return False, mir.fmt(o)


def check_interr_impls(ck, f, unit, label, expect_bad=False):
    """Every IntError::into_int_err in the unit: no new_unchecked, NonZero::new argument provably non-zero."""
    found = []
    adts = {a["path"]: a for a in f.adts(unit)}
    for fn in f.fns(unit):
        if fn.get("impl_trait") != RES + "IntError":
            continue
        body = mir.Body(fn)
        key = "%s/%s" % (label, fn["path"])
        if fn["name"] == "into_int_err":
            unchecked = [cp(t) for _, t in body.calls() if NZ_UNCHECKED in cp(t)]
            news = [(i, t) for i, t in body.calls() if cp(t) == NZ_NEW]
            # semantic form: on every path the function returns (never panics) a NonZero built from a value known to be non-zero there
            ev = _evaluator(f, unit)
            me = ("sym", "self")
            ev.hint(me, sem.Evaluator.adt_of_type(fn["inputs"][0]))
            outs = ev.run(fn, [me])
            if outs and not any(o.kind == "stuck" for o in outs):
                good = not unchecked and all(o.kind == "ret" and sem.strip(o.ret)[0] == "nz" for o in outs)
                okv = [(o.kind == "ret" and sem.strip(o.ret)[0] == "nz", repr(o)[:160]) for o in outs]
            else:
                okv = [nonzero_argument(body, t, adts) for _, t in news]
                good = not unchecked and news and all(o for o, _ in okv)
            found.append((key, good, unchecked, okv))
            if not expect_bad and "io::Error" in fn.get("impl_self", "") and outs and not any(o.kind == "stuck" for o in outs):
                # a non-zero OS code is encoded as itself; the substitute constant is used only when there is no code or it is 0
                pres = True
                for o in outs:
                    if o.kind != "ret":
                        continue
                    r = sem.strip(o.ret)
                    v = sem.strip(r[1]) if r[0] == "nz" else ("?",)
                    raw = [e for e in o.calls("raw_os_error")]
                    no_code = any(c[0] == "discr" and c[2] == "None" and sem.strip(c[1])[0] == "opq" and raw and sem.strip(c[1])[1] == raw[0][3] for c in o.conds)
                    zero_code = any(c[0] == "eq" and c[2] == 0 and sem.strip(c[1])[0] == "pay" for c in o.conds)
                    if v[0] == "const":
                        pres = pres and (no_code or zero_code)
                    else:
                        pres = pres and v[0] == "pay" and v[2] == "Some" and raw and sem.strip(v[1])[0] == "opq" and sem.strip(v[1])[1] == raw[0][3]
                ck.ob("N-os-code-preserved", key, pres, "%s does not encode every non-zero OS error code as itself: %s" % (fn["path"], [repr(o)[:140] for o in outs]),
                      sample={"fn": fn["path"]})
            if not expect_bad:
                ck.ob("N-encode-never-zero", key, good,
                      "%s (%s) can encode an error as 0 or panic: new_unchecked=%s, NonZeroI32::new operands=%s" % (fn["path"], fn["span"], unchecked, [w for _, w in okv]),
                      sample={"fn": fn["path"], "operands": [w for _, w in okv]})
        if fn["name"] == "from_int_err" and "io::Error" in fn.get("impl_self", ""):
            o = body.origin_local(0)
            ck.ob("N-os-code-roundtrip", key, o[0] == "call" and o[1].endswith("from_raw_os_error") and o[2][0][0] == "call" and o[2][0][1] == NZ_GET and o[2][0][2][0] == ("arg", 1),
                  "%s does not rebuild the io::Error from the unmodified code: %s" % (fn["path"], mir.fmt(o)))
    return found


def check_plumbing(ck, m, label):
    """Generated int-result methods: out-parameter wiring in the C wrapper and in the opaque-object impl."""
    n = 0
    for g in m.gen_traits:
        for name, w in g.wrappers.items():
            body = mir.Body(w)
            calls = [(i, t) for i, t in body.calls() if cp(t) in (RES + "into_int_out_result", RES + "into_int_result")]
            if not calls:
                continue
            n += 1
            key = "%s/%s.%s" % (label, g.vtbl_path, name)
            i, t = calls[0]
            with_out = cp(t).endswith("into_int_out_result")
            ret = body.origin_local(0)
            ck.ob("P-wrapper-returns-code", key, len(calls) == 1 and ret[0] == "call" and ret[1] == cp(t) and body.on_all_paths_to_return(i) and not body.in_cycle(i),
                  "C wrapper %s does not return the code computed by %s exactly once" % (w["path"], cp(t)))
            if with_out:
                last = body.argc
                o = mir.strip(body.origin_operand(t["args"][1]))
                ck.ob("P-wrapper-out-is-last-param", key, o == ("arg", last), "C wrapper %s passes %s as ok_out instead of its last parameter" % (w["path"], mir.fmt(o)),
                      sample={"wrapper": w["path"], "ok_out": "arg%d" % last})
                ck.ob("P-wrapper-out-type", key, w["inputs"][-1].startswith("&") and "MaybeUninit<" in w["inputs"][-1] and w["output"] == "i32",
                      "C wrapper %s signature is not (.., &mut MaybeUninit<T>) -> i32" % w["path"])
            # opaque side
            of = g.opaque.get(name)
            if of is None:
                continue
            ob = mir.Body(of)
            icalls = [(bi, tt) for bi, tt in ob.calls() if tt.get("callee") is None]
            dec = [(bi, tt) for bi, tt in ob.calls() if cp(tt) in (RES + "from_int_result", RES + "from_int_result_empty")]
            good = len(icalls) == 1 and len(dec) == 1
            ck.ob("P-opaque-one-decode", key, good, "opaque impl %s: expected one vtable call and one decode, found %d/%d" % (of["path"], len(icalls), len(dec)))
            if not good:
                continue
            vt, dt = icalls[0][1], dec[0][1]
            code = ob.origin_operand(dt["args"][0])
            ck.ob("P-opaque-code-is-call-result", key, code[0] == "icall" and code[3] == icalls[0][0], "opaque impl %s decodes %s instead of the vtable call's return value" % (of["path"], mir.fmt(code)))
            if with_out:
                ck.ob("P-opaque-decoder", key, cp(dt).endswith("from_int_result"), "opaque impl %s uses %s for a method with a success payload" % (of["path"], cp(dt)))
                if cp(dt).endswith("from_int_result"):
                    slot = ob.origin_operand(dt["args"][1])
                    passed = mir.strip(ob.origin_operand(vt["args"][-1]))
                    ck.ob("P-opaque-same-slot", key, slot[0] == "call" and slot[1].endswith("MaybeUninit::<T>::uninit") and passed == slot,
                          "opaque impl %s: the slot given to the vtable call (%s) is not the one decoded (%s)" % (of["path"], mir.fmt(passed), mir.fmt(slot)),
                          sample={"impl": of["path"], "slot": mir.fmt(slot)})
            else:
                ck.ob("P-opaque-decoder", key, cp(dt).endswith("from_int_result_empty"), "opaque impl %s uses %s for a unit success" % (of["path"], cp(dt)))
            ro = ob.origin_local(0)
            ck.ob("P-opaque-returns-decoded", key, ro[0] == "call" and ro[1] == cp(dt), "opaque impl %s does not return the decoded Result" % of["path"])
    return n


def corpus_transport_expect(exp):
    """{trait path: {method: uses integer coding}} from the corpus description (generated single-method traits and the hand-written
    ones that say so)."""
    out = {}
    for it in exp["items"]:
        if it["kind"] == "single":
            out["cgv_corpus::%s::%s" % (it["mod"], it["trait"])] = {mm["name"]: bool(mm["int_result"]) for mm in it["methods"]}
        elif it["kind"] == "fixed" and it.get("int"):
            out["cgv_corpus::%s::%s" % (it["mod"], it["trait"])] = dict(it["int"])
    return out


def check_transport(ck, m, label, expected):
    """A method crosses the boundary as (i32 code, ok_out slot) exactly when it is marked #[int_result] (by its own attribute, else by
    the trait's, unless #[no_int_result]); every other Result keeps its lossless CResult form.  Decided per generated wrapper and
    opaque implementation from the helper they call."""
    n = 0
    for g in m.gen_traits:
        want = expected.get(g.trait_path or "")
        if not want:
            continue
        for name, marked in sorted(want.items()):
            w, of = g.wrappers.get(name), g.opaque.get(name)
            if w is None:
                continue   # no slot: reported by the slot-list rule
            n += 1
            key = "%s/%s.%s" % (label, g.vtbl_path, name)
            enc = any(cp(t) in (RES + "into_int_out_result", RES + "into_int_result") for _, t in mir.Body(w).calls())
            ck.ob("T-int-transport-iff-marked", key + "/wrapper", enc == marked,
                  "C wrapper %s %s although the method is %s" % (w["path"], "returns an integer code" if enc else "does not return an integer code",
                                                                "marked #[int_result]" if marked else "not marked #[int_result] (here)"),
                  sample={"method": (g.trait_path or "") + "::" + name, "marked": marked, "encodes": enc})
            if of is not None:
                dec = any(cp(t) in (RES + "from_int_result", RES + "from_int_result_empty") for _, t in mir.Body(of).calls())
                ck.ob("T-int-transport-iff-marked", key + "/opaque", dec == marked,
                      "opaque impl %s %s although the method is %s" % (of["path"], "decodes an integer code" if dec else "does not decode an integer code",
                                                                     "marked #[int_result]" if marked else "not marked #[int_result] (here)"))
    return n



def check_helpers(ck):
    """The four integer-result helper functions (also on the path of every #[int_result] call, hence shared with C01)."""
    f = facts.cfg_cglue()
    for name, fnc, arg in (("into_int_out_result", check_into, True), ("into_int_result", check_into, False),
                           ("from_int_result", check_from, True), ("from_int_result_empty", check_from, False)):
        fn = find_fn(f, RES + name, "cglue-lib")
        if ck.require(fn is not None, "function cglue::result::" + name):
            fnc(ck, fn, arg)
    return f


def run(tier):
    ck = report.Check("C13", tier, level="other")
    f = facts.cfg_cglue()
    ck.unit("cglue lib")
    for name, fnc, arg in (("into_int_out_result", check_into, True), ("into_int_result", check_into, False),
                           ("from_int_result", check_from, True), ("from_int_result_empty", check_from, False)):
        fn = find_fn(f, RES + name, "cglue-lib")
        if ck.require(fn is not None, "function cglue::result::" + name):
            fnc(ck, fn, arg)
    # the trait methods delegate to the free functions
    for fn in f.fns("cglue-lib"):
        if fn.get("impl_trait") == RES + "IntResult":
            body = mir.Body(fn)
            o = body.origin_local(0)
            ck.ob("I-trait-delegates", fn["path"], o[0] == "call" and o[1] == RES + fn["name"] and all(mir.strip(a) == ("arg", i + 1) for i, a in enumerate(o[2])),
                  "%s does not forward its arguments to %s%s" % (fn["path"], RES, fn["name"]))
    # type contract
    tr = [t for t in f.traits("cglue-lib") if t["path"] == RES + "IntError"]
    if ck.require(len(tr) == 1, "trait cglue::result::IntError"):
        items = {it["name"]: it for it in tr[0]["items"]}
        ck.ob("N-contract-type", "IntError::into_int_err", items["into_int_err"]["output"] == "std::num::NonZero<i32>",
              "IntError::into_int_err returns %s, not NonZeroI32" % items["into_int_err"]["output"])
        ck.ob("N-contract-type", "IntError::from_int_err", items["from_int_err"]["inputs"] == ["std::num::NonZero<i32>"],
              "IntError::from_int_err takes %s" % items["from_int_err"]["inputs"])
    found = check_interr_impls(ck, f, "cglue-lib", "cglue")
    ck.floor("IntError impls shipped", len(found), 3)
    ex = facts.cfg_examples()
    ck.unit("examples")
    check_interr_impls(ck, ex, None, "examples")
    # new_unchecked anywhere in cglue / examples
    n_unchecked = 0
    for unit_f, label in ((f, "cglue"), (ex, "examples")):
        for fn in unit_f.fns():
            for _, t in mir.Body(fn).calls():
                if NZ_UNCHECKED in cp(t) and "NonZero" in cp(t):
                    n_unchecked += 1
                    ck.violation("N-no-new-unchecked", "%s/%s" % (label, fn["path"]), "%s calls %s" % (fn["path"], cp(t)))
    ck.ob("N-no-new-unchecked", "cglue+examples", n_unchecked == 0, "new_unchecked used")
    # positive controls
    ctl = corpus.controls_facts()
    bad = check_interr_impls(ck, ctl, None, "controls", expect_bad=True)
    ck.require(len(bad) == 2 and all(not g for _, g, _, _ in bad), "controls BadErr/BadErr2 are flagged by the never-zero rule")
    # generated plumbing
    cf = corpus.corpus_facts(tier)
    ck.unit("corpus-%s" % tier)
    cm = model.Model(cf)
    n1 = check_plumbing(ck, cm, "corpus")
    ck.floor("int-result methods in corpus", n1, 25 if tier == "quick" else 300)
    nt = check_transport(ck, cm, "corpus", corpus_transport_expect(corpus.expect(tier)))
    ck.floor("corpus methods with a stated transport", nt, 300)
    ct = facts.cfg_cglue(tests=True)
    ck.unit("cglue --tests")
    n2 = check_plumbing(ck, model.Model(ct, "cglue-test"), "cglue-tests")
    ck.floor("int-result methods in cglue tests/ext", n2, 10)
    n3 = check_plumbing(ck, model.Model(ex), "examples")
    return ck.finish(
        "arm-by-arm shape rules on into_int_out_result/into_int_result/from_int_result/from_int_result_empty; NonZeroI32 contract of IntError and "
        "a constant/non-zero dataflow on every shipped impl; out-parameter wiring of every generated int-result method (wrapper: last parameter is "
        "ok_out and the code is returned; opaque impl: the slot passed to the vtable call is the one decoded, with the call's return as code)",
        rule_text="obligation = one (function or generated method, clause)",
        trusted=["NonZeroI32::new/get and MaybeUninit semantics as documented"])
