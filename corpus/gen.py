#!/usr/bin/env python3
"""Enumerate the cglue trait/group grammar into a corpus crate (source only; nothing is executed).

usage: gen.py <outdir> quick|thorough [nshards]
Writes <outdir>/Cargo.toml, src/lib.rs (+ src/shard_*.rs) and expect.json describing every item.
"""
import itertools, json, os, sys

RECV = {
    "ref": "&self",
    "mut": "&mut self",
    "own": "self",
    "pinref": "self: ::core::pin::Pin<&Self>",
    "pinmut": "self: ::core::pin::Pin<&mut Self>",
}

# argument shapes: list of (name, rust type)
ARGS = {
    "none": [],
    "u32": [("x", "u32")],
    "two": [("a", "u64"), ("b", "u64")],
    "cstruct": [("s", "CS")],
    "refu": [("r", "&u32")],
    "mutu": [("m", "&mut u32")],
    "slice": [("sl", "&[u8]")],
    "slicemut": [("sm", "&mut [u16]")],
    "str": [("st", "&str")],
    "optref": [("on", "Option<&u32>")],
    "optnz": [("oz", "Option<::core::num::NonZeroU32>")],
    "optu": [("ou", "Option<u64>")],
    "res": [("rs", "Result<u32, u8>")],
    "into": [("i", "impl Into<u64>")],
    "cb": [("cb", "OpaqueCallback<u32>")],
    "iter": [("it", "CIterator<u32>")],
    "ptr": [("p", "*const u8")],
    "fnptr": [("f", 'extern "C" fn(u32) -> u32')],
    "mixed": [("a", "u8"), ("sl", "&[u32]"), ("o", "Option<u16>"), ("st", "&str"), ("b", "u8")],
    # Option of pointer-like payloads: only references, NonNull, Box, NonZero* and fn pointers have a null niche rustc accepts;
    # Option<*const T> / Option<*mut T> must be wrapped like any other non-NPO Option
    "optptr": [("op", "Option<*const u8>")],
    "optmptr": [("om", "Option<*mut u32>")],
    "optnn": [("onn", "Option<::core::ptr::NonNull<u8>>")],
    "optbox": [("ob", "Option<Box<u64>>")],
    "optfn": [("of", 'Option<extern "C" fn(u32) -> u32>')],
    # the remaining spellings of the documented auto-wrapped shapes
    # (`&mut str` is rejected at compile time in both positions: the wrapper only converts to `&str`)
    "optmut": [("omu", "Option<&mut u32>")],
    "slicecs": [("scs", "&[CS]")],
    "optcs": [("ocs", "Option<CS>")],
    "resunit": [("ru", "Result<(), u8>")],
    # Option / Result spelled with a module path are the same shapes
    "qopt": [("qo", "::core::option::Option<u32>")],
    "qres": [("qr", "::std::result::Result<u32, u8>")],
}
# shapes abi_stable's derive cannot describe: not part of the layout_checks build
NO_LAYOUT_CHECKS_ARGS = ("fnptr", "optbox", "optfn")
# return shapes abi_stable's derive cannot describe (a Rust tuple behind the output slot)
NO_LAYOUT_CHECKS_RETS = ("resint_tuple",)

# return shapes: (rust type, allowed receivers, trait attrs, method attrs)
REF_RECV = ("ref", "mut", "pinref", "pinmut")
RETS = {
    "unit": ("", None, "", ""),
    "u64": ("u64", None, "", ""),
    "cstruct": ("CS", None, "", ""),
    "refu": ("&u32", REF_RECV, "", ""),
    "mutu": ("&mut u32", ("mut",), "", ""),
    "slice": ("&[u8]", REF_RECV, "", ""),
    "slicemut": ("&mut [u8]", ("mut",), "", ""),
    "str": ("&str", REF_RECV, "", ""),
    "optref": ("Option<&u32>", REF_RECV, "", ""),
    "optnz": ("Option<::core::num::NonZeroU32>", None, "", ""),
    "optu": ("Option<u64>", None, "", ""),
    "optptr": ("Option<*const u8>", None, "", ""),
    "optnn": ("Option<::core::ptr::NonNull<u8>>", None, "", ""),
    "res": ("Result<u64, u8>", None, "", ""),
    "optcs": ("Option<CS>", None, "", ""),
    "optmut": ("Option<&mut u32>", ("mut",), "", ""),
    "slicecs": ("&[CS]", REF_RECV, "", ""),
    "resunit": ("Result<(), u8>", None, "", ""),
    "qopt": ("::core::option::Option<u32>", None, "", ""),
    "qres": ("::std::result::Result<u32, u8>", None, "", ""),
    # integer results through a one-parameter alias, and over a user error type
    "resint_alias1": ("Res1<u64>", None, "#[int_result(Res1)]", ""),
    "resint_cerr": ("Result<u64, CErr>", None, "#[int_result]", ""),
    "res_cerr": ("Result<u64, CErr>", None, "", ""),
    "resint": ("Result<u64, ()>", None, "#[int_result]", ""),
    "resint_unit": ("Result<(), ()>", None, "#[int_result]", ""),
    "resint_io": ("Result<u32, ::std::io::Error>", None, "#[int_result]", ""),
    "resint_m": ("Result<u64, ()>", None, "", "#[int_result]"),
    "resint_no": ("Result<u64, u8>", None, "#[int_result]", "#[no_int_result]"),
    "resint_alias": ("AliasRes<u64, ()>", None, "#[int_result(AliasRes)]", ""),
    # a non-unit tuple as success value still goes through the output slot (only `()` has none)
    "resint_pair": ("Result<CS, ()>", None, "#[int_result]", ""),
    "resint_tuple": ("Result<(u32, u64), ()>", None, "#[int_result]", ""),
    # Result with a pointer-like success value: Result has no guaranteed layout whatever its payload, so it is wrapped like any other
    "res_nn": ("Result<::core::ptr::NonNull<u8>, u8>", None, "", ""),
    "res_nz": ("Result<::core::num::NonZeroU32, u8>", None, "", ""),
    "res_ref": ("Result<&u32, u8>", REF_RECV, "", ""),
    # trait-level #[int_result] with a method-level #[int_result(Alias)] naming the alias the method returns
    "resint_both": ("AliasRes<u64, ()>", None, "#[int_result]", "#[int_result(AliasRes)]"),
}

# (recv, args, ret) combinations the generator (macro) rejects or that are not valid Rust; one reason each.
def excluded(recv, args, ret):
    rt = RETS[ret]
    if rt[1] is not None and recv not in rt[1]:
        return "return borrows from a receiver kind that cannot lend it"
    if ret in ("refu", "mutu", "slice", "slicemut", "str", "optref", "res_ref", "optmut", "slicecs") and args in ("refu", "mutu", "slice", "slicemut", "str", "optref", "mixed", "cb", "iter", "optmut", "slicecs"):
        return "macro rejects at compile time: the C wrapper has no `self`, so the elided output lifetime is ambiguous (E0106); named-lifetime forms are covered by multi::M3"
    return None


HEADER = """#![allow(unused, non_snake_case, non_camel_case_types, clippy::all, improper_ctypes_definitions)]
//! Generated by /verif/corpus/gen.py -- do not edit.
"""

COMMON = """
pub mod common {
    #[repr(C)]
    #[derive(Clone, Copy, Default)]
    #[cfg_attr(feature = "layout_checks", derive(::abi_stable::StableAbi))]
    pub struct CS {
        pub a: u32,
        pub b: u64,
    }
    pub type AliasRes<T, E> = Result<T, E>;
    /// a C-representable error type that can be integer-coded, and a one-parameter result alias over it
    #[repr(C)]
    #[derive(Clone, Copy)]
    #[cfg_attr(feature = "layout_checks", derive(::abi_stable::StableAbi))]
    pub struct CErr(pub u32);
    impl ::cglue::result::IntError for CErr {
        fn into_int_err(self) -> ::core::num::NonZeroI32 { ::core::num::NonZeroI32::new((self.0 as i32) | 1).unwrap() }
        fn from_int_err(err: ::core::num::NonZeroI32) -> Self { CErr(err.get() as u32) }
    }
    pub type Res1<T> = Result<T, CErr>;
}
"""


def impl_body(ret):
    return "{ unimplemented!() }"


def single_trait(idx, recv, args, ret):
    name = "S%04d" % idx
    rt, _, tattr, mattr = RETS[ret]
    arglist = ", ".join(["%s" % RECV[recv]] + ["%s: %s" % (n, t) for n, t in ARGS[args]])
    out = (" -> " + rt) if rt else ""
    sig = "fn m(%s)%s" % (arglist, out)
    src = []
    if args in NO_LAYOUT_CHECKS_ARGS or ret in NO_LAYOUT_CHECKS_RETS:
        # abi_stable's derive rejects nested function pointers / Box: these traits are not part of the layout_checks build
        src.append('#[cfg(not(feature = "layout_checks"))]')
    src.append("pub mod %s {" % name.lower())
    src.append("    use cglue::prelude::v1::*; use cglue::*; use super::common::*;")
    src.append("    #[cglue_trait]")
    if tattr:
        src.append("    " + tattr)
    src.append("    pub trait %s {" % name)
    if mattr:
        src.append("        " + mattr)
    src.append("        %s;" % sig)
    src.append("    }")
    src.append("    pub struct I(pub u64);")
    src.append("    impl %s for I { %s %s }" % (name, sig, impl_body(ret)))
    src.append("}")
    meta = {
        "kind": "single", "mod": name.lower(), "trait": name, "recv": recv, "args": args, "ret": ret,
        "methods": [{"name": "m", "recv": recv, "args": [t for _, t in ARGS[args]], "ret": rt,
                     "int_result": bool((tattr.startswith("#[int_result") or mattr.startswith("#[int_result")) and mattr != "#[no_int_result]")}],
    }
    return "\n".join(src), meta


def all_singles(tier):
    combos = []
    if tier == "thorough":
        for recv in RECV:
            for args in ARGS:
                for ret in RETS:
                    combos.append((recv, args, ret))
    else:
        seen = set()
        # every arg shape with every receiver (unit return); every return shape with every receiver (no args);
        # plus a diagonal mixing the two
        for recv in RECV:
            for args in ARGS:
                combos.append((recv, args, "unit"))
        for recv in RECV:
            for ret in RETS:
                combos.append((recv, "none", ret))
        rets = list(RETS)
        for i, args in enumerate(ARGS):
            combos.append(("mut", args, rets[i % len(rets)]))
            combos.append(("ref", args, rets[(i * 7 + 3) % len(rets)]))
        # integer-result methods change how the whole signature is processed: every arg shape under a trait-level and a
        # method-level #[int_result]
        for args in ARGS:
            combos.append(("ref", args, "resint"))
            combos.append(("mut", args, "resint_m"))
        combos = [c for c in combos if not (c in seen or seen.add(c))]
    out, excl = [], []
    for c in combos:
        r = excluded(*c)
        if r:
            excl.append({"combo": list(c), "reason": r})
        else:
            out.append(c)
    return out, excl


MULTI = r'''
pub mod multi {
    use cglue::prelude::v1::*; use cglue::*; use super::common::*;

    /// several methods, two of them with identical signatures (a slot swap would type-check)
    #[cglue_trait]
    pub trait M1 {
        fn first(&self, a: u64, b: u64) -> u64;
        fn second(&self, a: u64, b: u64) -> u64;
        fn third(&mut self, s: &[u8]) -> usize;
        fn fourth(&mut self, s: &[u8]) -> usize;
        fn fifth(self) -> u64;
    }
    pub struct I1(pub u64);
    impl M1 for I1 {
        fn first(&self, a: u64, b: u64) -> u64 { a.wrapping_sub(b) }
        fn second(&self, a: u64, b: u64) -> u64 { b.wrapping_sub(a) }
        fn third(&mut self, s: &[u8]) -> usize { self.0 += 1; s.len() }
        fn fourth(&mut self, s: &[u8]) -> usize { self.0 += 2; s.len() }
        fn fifth(self) -> u64 { self.0 }
    }

    /// generic trait
    #[cglue_trait]
    pub trait M2<T: Copy> {
        fn put(&mut self, v: T);
        fn get(&self) -> T;
        fn both(&mut self, a: T, b: T) -> T;
    }
    pub struct I2(pub u32);
    impl M2<u32> for I2 {
        fn put(&mut self, v: u32) { self.0 = v }
        fn get(&self) -> u32 { self.0 }
        fn both(&mut self, a: u32, b: u32) -> u32 { a.wrapping_sub(b) }
    }

    /// named lifetimes on methods
    #[cglue_trait]
    pub trait M3 {
        fn pick<'a>(&'a self, other: &'a u32) -> &'a u32;
        fn sl<'a>(&'a mut self, other: &'a [u8]) -> &'a [u8];
        fn st<'a>(&'a self, other: &str) -> &'a str;
        fn slm<'a>(&'a mut self, other: &'a mut [u8]) -> usize;
    }
    pub struct I3(pub u32, pub [u8; 4]);
    impl M3 for I3 {
        fn pick<'a>(&'a self, other: &'a u32) -> &'a u32 { if *other > self.0 { other } else { &self.0 } }
        fn sl<'a>(&'a mut self, other: &'a [u8]) -> &'a [u8] { other }
        fn st<'a>(&'a self, other: &str) -> &'a str { "x" }
        fn slm<'a>(&'a mut self, other: &'a mut [u8]) -> usize { other.len() }
    }

    /// unsafe / extern "C" / default-bodied methods
    #[cglue_trait]
    pub trait M4 {
        unsafe fn raw(&self, p: *const u8) -> u8;
        extern "C" fn cabi(&self, x: u32) -> u32;
        fn with_default(&self, x: u32) -> u32 { x + 1 }
        fn generic_default<T: Into<u64>>(&self, x: T) -> u64 where Self: Sized { x.into() }
    }
    pub struct I4;
    impl M4 for I4 {
        unsafe fn raw(&self, p: *const u8) -> u8 { *p }
        extern "C" fn cabi(&self, x: u32) -> u32 { x }
    }

    /// skip_func and supertrait-free mandatory method mix
    #[cglue_trait]
    pub trait M5 {
        fn kept(&self) -> u8;
        #[skip_func]
        fn skipped(&self) -> (u8, u8) { (0, 0) }
        fn kept2(&mut self, x: Option<u64>) -> Option<u64>;
    }
    pub struct I5;
    impl M5 for I5 {
        fn kept(&self) -> u8 { 0 }
        fn kept2(&mut self, x: Option<u64>) -> Option<u64> { x }
    }

    /// forwarded trait: `impl M7 for Fwd<T>` lets `&mut T` handles be used where the trait is required
    #[cglue_trait]
    #[cglue_forward]
    pub trait M7 {
        fn fa(&self, x: u32) -> u32;
        fn fb(&mut self, x: u32, y: u32) -> u32;
        fn fc(&self, s: &[u8], t: &[u8]) -> usize;
        /// provided methods must be forwarded too: the implementor may override them
        fn fd(&self, x: u32) -> u32 { x.wrapping_add(1) }
        fn fe(&mut self, x: u32) -> u32 { self.fb(x, x) }
    }
    pub struct I7(pub u32);
    impl M7 for I7 {
        fn fa(&self, x: u32) -> u32 { x }
        fn fb(&mut self, x: u32, y: u32) -> u32 { self.0 = x; y }
        fn fc(&self, s: &[u8], t: &[u8]) -> usize { s.len().wrapping_sub(t.len()) }
        fn fd(&self, x: u32) -> u32 { x }
    }

    /// #[skip_func] on a method that is neither last nor next-to-last: removing it must not disturb the order of the rest
    #[cglue_trait]
    pub trait M8 {
        fn open(&mut self) -> u32;
        #[skip_func]
        fn describe(&self) -> (u8, u8) { (0, 0) }
        fn read(&mut self, b: &mut [u8]) -> usize;
        #[skip_func]
        fn describe2(&self) -> (u8, u8) { (1, 1) }
        fn write(&mut self, b: &[u8]) -> usize;
        fn flush(&mut self) -> u32;
        fn close(&mut self) -> u32;
    }
    pub struct I8;
    impl M8 for I8 {
        fn open(&mut self) -> u32 { 0 }
        fn read(&mut self, b: &mut [u8]) -> usize { b.len() }
        fn write(&mut self, b: &[u8]) -> usize { b.len() }
        fn flush(&mut self) -> u32 { 1 }
        fn close(&mut self) -> u32 { 2 }
    }

    /// more than 20 items (past the small-slice threshold of the standard sorts) with an associated type declared between methods
    #[cglue_trait]
    pub trait M9 {
        fn g00(&self) -> usize;
        fn g01(&self) -> usize;
        fn g02(&self) -> usize;
        fn g03(&self) -> usize;
        fn g04(&self) -> usize;
        fn g05(&self) -> usize;
        fn g06(&self) -> usize;
        fn g07(&self) -> usize;
        fn g08(&self) -> usize;
        fn g09(&self) -> usize;
        fn g10(&self) -> usize;
        fn g11(&self) -> usize;
        fn g12(&self) -> usize;
        fn g13(&self) -> usize;
        fn g14(&self) -> usize;
        fn g15(&self) -> usize;
        fn g16(&self) -> usize;
        type Token: 'static;
        fn token(&self) -> Self::Token;
        fn g17(&self) -> usize;
        fn g18(&self) -> usize;
        fn g19(&self) -> usize;
        fn g20(&self) -> usize;
        fn g21(&self) -> usize;
        fn g22(&self) -> usize;
        fn g23(&self) -> usize;
    }
    pub struct I9;
    impl M9 for I9 {
        fn g00(&self) -> usize { 0 }
        fn g01(&self) -> usize { 1 }
        fn g02(&self) -> usize { 2 }
        fn g03(&self) -> usize { 3 }
        fn g04(&self) -> usize { 4 }
        fn g05(&self) -> usize { 5 }
        fn g06(&self) -> usize { 6 }
        fn g07(&self) -> usize { 7 }
        fn g08(&self) -> usize { 8 }
        fn g09(&self) -> usize { 9 }
        fn g10(&self) -> usize { 10 }
        fn g11(&self) -> usize { 11 }
        fn g12(&self) -> usize { 12 }
        fn g13(&self) -> usize { 13 }
        fn g14(&self) -> usize { 14 }
        fn g15(&self) -> usize { 15 }
        fn g16(&self) -> usize { 16 }
        type Token = u64;
        fn token(&self) -> u64 { 0 }
        fn g17(&self) -> usize { 17 }
        fn g18(&self) -> usize { 18 }
        fn g19(&self) -> usize { 19 }
        fn g20(&self) -> usize { 20 }
        fn g21(&self) -> usize { 21 }
        fn g22(&self) -> usize { 22 }
        fn g23(&self) -> usize { 23 }
    }

    /// a method-level #[int_result] applies to that method only; a default-bodied `where Self: Sized` method keeps its slot
    #[cglue_trait]
    pub trait M10 {
        fn before(&self) -> Result<u64, CErr>;
        #[int_result]
        fn coded(&self) -> Result<u64, CErr>;
        fn after(&self) -> Result<u64, CErr>;
        fn sized_default(&self, x: u64) -> u64 where Self: Sized { x }
        fn after_unit(&mut self) -> Result<(), CErr>;
        fn last(&self) -> u64;
    }
    pub struct I10;
    impl M10 for I10 {
        fn before(&self) -> Result<u64, CErr> { Ok(0) }
        fn coded(&self) -> Result<u64, CErr> { Ok(1) }
        fn after(&self) -> Result<u64, CErr> { Err(CErr(2)) }
        fn sized_default(&self, x: u64) -> u64 { x + 1000 }
        fn after_unit(&mut self) -> Result<(), CErr> { Ok(()) }
        fn last(&self) -> u64 { 3 }
    }

    /// trait-level #[int_result] with a method-level alias override in the middle: the methods after it use the trait-level name again
    #[cglue_trait]
    #[int_result]
    pub trait M11 {
        fn open(&self) -> Result<u64, CErr>;
        #[int_result(Res1)]
        fn peek(&self) -> Res1<u64>;
        fn close(&self) -> Result<u64, CErr>;
        #[no_int_result]
        fn plain(&self) -> Result<u64, CErr>;
        fn done(&self) -> Result<(), CErr>;
    }
    pub struct I11;
    impl M11 for I11 {
        fn open(&self) -> Result<u64, CErr> { Ok(0) }
        fn peek(&self) -> Res1<u64> { Ok(1) }
        fn close(&self) -> Result<u64, CErr> { Ok(2) }
        fn plain(&self) -> Result<u64, CErr> { Ok(3) }
        fn done(&self) -> Result<(), CErr> { Ok(()) }
    }

    /// lifetime-parameterised trait
    #[cglue_trait]
    pub trait M6<'x, T: Copy + 'x> {
        fn hold(&mut self, v: T);
        fn held(&self) -> T;
    }
    pub struct I6(pub u32);
    impl<'x> M6<'x, u32> for I6 {
        fn hold(&mut self, v: u32) { self.0 = v }
        fn held(&self) -> u32 { self.0 }
    }
}
'''

ASSOC = r'''
pub mod assoc {
    use cglue::prelude::v1::*; use cglue::*; use super::common::*;
    use cglue::trait_group::c_void;

    #[cglue_trait]
    pub trait Leaf {
        fn leaf(&self) -> u32;
        fn leaf_mut(&mut self, x: u32) -> u32;
    }
    #[cglue_trait]
    pub trait Leaf2 {
        fn leaf2(&self) -> u64;
    }
    #[derive(Clone)]
    pub struct L(pub u32);
    impl Leaf for L {
        fn leaf(&self) -> u32 { self.0 }
        fn leaf_mut(&mut self, x: u32) -> u32 { self.0 = x; x }
    }
    impl Leaf2 for L {
        fn leaf2(&self) -> u64 { self.0 as u64 }
    }
    cglue_trait_group!(LeafGroup, Leaf, { Leaf2 });
    cglue_impl_group!(L, LeafGroup, { Leaf2 });

    #[cglue_trait]
    pub trait WObj {
        #[wrap_with_obj(Leaf)]
        type Ret: Leaf + 'static;
        fn wobj(&self) -> Self::Ret;
        fn wobj_mut(&mut self, x: u32) -> Self::Ret;
        fn wobj_own(self) -> Self::Ret;
    }
    #[cglue_trait]
    pub trait WObjRef {
        #[wrap_with_obj_ref(Leaf)]
        type Ret: Leaf + 'static;
        fn wobj_ref(&self) -> &Self::Ret;
    }
    /// two accessors lending the same wrapped associated type: each needs its own temporary-return slot
    #[cglue_trait]
    pub trait WObjRef2 {
        #[wrap_with_obj_ref(Leaf)]
        type Ret: Leaf + 'static;
        fn left(&self) -> &Self::Ret;
        fn right(&self) -> &Self::Ret;
    }
    #[cglue_trait]
    pub trait WObjMut {
        #[wrap_with_obj_mut(Leaf)]
        type Ret: Leaf + 'static;
        fn wobj_mut(&mut self) -> &mut Self::Ret;
    }
    #[cglue_trait]
    pub trait WGroup {
        #[wrap_with_group(LeafGroup)]
        type Ret: Leaf + 'static;
        fn wgroup(&self) -> Self::Ret;
        fn wgroup_own(self) -> Self::Ret;
    }
    #[cglue_trait]
    pub trait WGroupRef {
        #[wrap_with_group_ref(LeafGroup)]
        type Ret: Leaf + 'static;
        fn wgroup_ref(&self) -> &Self::Ret;
    }
    #[cglue_trait]
    pub trait WGroupMut {
        #[wrap_with_group_mut(LeafGroup)]
        type Ret: Leaf + 'static;
        fn wgroup_mut(&mut self) -> &mut Self::Ret;
    }
    #[cglue_trait]
    #[int_result]
    pub trait WObjRes {
        #[wrap_with_obj(Leaf)]
        type Ret: Leaf + 'static;
        fn wres(&self) -> Result<Self::Ret, ()>;
        #[no_int_result]
        fn wres_c(&self) -> Result<Self::Ret, u8>;
    }
    #[cglue_trait]
    pub trait WPlain {
        #[wrap_with(*const c_void)]
        #[return_wrap(|ret| Box::leak(Box::new(ret)) as *mut _ as *const c_void)]
        type Ret;
        fn wplain(&self) -> Self::Ret;
    }
    #[cglue_trait]
    pub trait WSelf: Sized + Clone {
        fn dup(&self) -> Self;
    }
    #[cglue_trait]
    pub trait WGat {
        #[wrap_with_obj(Leaf)]
        type Ret<'a>: Leaf + 'a where Self: 'a;
        fn wgat<'a>(&'a mut self) -> Self::Ret<'a>;
    }

    /// trait-lifetime-bound wrapped returns (the `'a` of the trait ties receiver and result; uses the write-into-slot idiom)
    #[cglue_trait]
    pub trait WObjMutLt<'a> {
        #[wrap_with_obj_mut(Leaf)]
        type Ret: Leaf + 'a;
        fn wobj_mut_lt(&'a mut self) -> &'a mut Self::Ret;
    }
    #[cglue_trait]
    pub trait WGroupMutLt<'a> {
        #[wrap_with_group_mut(LeafGroup)]
        type Ret: Leaf + 'a;
        fn wgroup_mut_lt(&'a mut self) -> &'a mut Self::Ret;
    }
    #[cglue_trait]
    pub trait WObjLt<'a> {
        #[wrap_with_obj(Leaf)]
        type Ret: Leaf + 'a;
        fn wobj_lt(&'a mut self) -> Self::Ret;
    }

    pub struct P(pub L);
    impl<'a> WObjMutLt<'a> for P { type Ret = L; fn wobj_mut_lt(&'a mut self) -> &'a mut L { &mut self.0 } }
    impl<'a> WGroupMutLt<'a> for P { type Ret = L; fn wgroup_mut_lt(&'a mut self) -> &'a mut L { &mut self.0 } }
    impl<'a> WObjLt<'a> for P { type Ret = L; fn wobj_lt(&'a mut self) -> L { self.0.clone() } }
    impl WObj for P { type Ret = L; fn wobj(&self) -> L { self.0.clone() } fn wobj_mut(&mut self, x: u32) -> L { L(x) } fn wobj_own(self) -> L { self.0 } }
    impl WObjRef for P { type Ret = L; fn wobj_ref(&self) -> &L { &self.0 } }
    impl WObjRef2 for P { type Ret = L; fn left(&self) -> &L { &self.0 } fn right(&self) -> &L { &self.0 } }
    impl WObjMut for P { type Ret = L; fn wobj_mut(&mut self) -> &mut L { &mut self.0 } }
    impl WGroup for P { type Ret = L; fn wgroup(&self) -> L { self.0.clone() } fn wgroup_own(self) -> L { self.0 } }
    impl WGroupRef for P { type Ret = L; fn wgroup_ref(&self) -> &L { &self.0 } }
    impl WGroupMut for P { type Ret = L; fn wgroup_mut(&mut self) -> &mut L { &mut self.0 } }
    impl WObjRes for P { type Ret = L; fn wres(&self) -> Result<L, ()> { Ok(self.0.clone()) } fn wres_c(&self) -> Result<L, u8> { Err(1) } }
    impl WPlain for P { type Ret = u32; fn wplain(&self) -> u32 { 1 } }
    impl WSelf for L { fn dup(&self) -> Self { self.clone() } }
    impl WGat for P { type Ret<'a> = L; fn wgat<'a>(&'a mut self) -> L { self.0.clone() } }
}
'''


# exact vtable slot lists expected for the hand-written corpus traits (declaration order, skipped methods removed)
FIXED_EXPECT = [
    ("multi", "M1", ["first", "second", "third", "fourth", "fifth"]),
    ("multi", "M2", ["put", "get", "both"]),
    ("multi", "M3", ["pick", "sl", "st", "slm"]),
    ("multi", "M4", ["raw", "cabi", "with_default"]),
    ("multi", "M5", ["kept", "kept2"]),
    ("multi", "M6", ["hold", "held"]),
    ("multi", "M7", ["fa", "fb", "fc", "fd", "fe"]),
    ("multi", "M10", ["before", "coded", "after", "sized_default", "after_unit", "last"]),
    ("multi", "M11", ["open", "peek", "close", "plain", "done"]),
    ("multi", "M8", ["open", "read", "write", "flush", "close"]),
    ("multi", "M9", ["g00", "g01", "g02", "g03", "g04", "g05", "g06", "g07", "g08", "g09", "g10", "g11", "g12", "g13", "g14", "g15", "g16", "token", "g17", "g18", "g19", "g20", "g21", "g22", "g23"]),
    ("assoc", "Leaf", ["leaf", "leaf_mut"]),
    ("assoc", "Leaf2", ["leaf2"]),
    ("assoc", "WObj", ["wobj", "wobj_mut", "wobj_own"]),
    ("assoc", "WObjRef", ["wobj_ref"]),
    ("assoc", "WObjRef2", ["left", "right"]),
    ("assoc", "WObjMut", ["wobj_mut"]),
    ("assoc", "WGroup", ["wgroup", "wgroup_own"]),
    ("assoc", "WGroupRef", ["wgroup_ref"]),
    ("assoc", "WGroupMut", ["wgroup_mut"]),
    ("assoc", "WObjRes", ["wres", "wres_c"]),
    ("assoc", "WPlain", ["wplain"]),
    ("assoc", "WSelf", ["dup"]),
    ("assoc", "WGat", ["wgat"]),
    ("assoc", "WObjMutLt", ["wobj_mut_lt"]),
    ("assoc", "WGroupMutLt", ["wgroup_mut_lt"]),
    ("assoc", "WObjLt", ["wobj_lt"]),
    ("ggen", "GT", ["gt"]),
    ("gcase", "Clock", ["clock"]), ("gcase", "CPUState", ["cpustate"]), ("gcase", "Idle", ["idle"]), ("gcase", "IOPort", ["ioport"]),
    ("gcase", "VMExit", ["vmexit"]), ("gcase", "Vcpu", ["vcpu"]),
    ("ggen", "GBase", ["gbase"]),
    ("gfwd", "FNamed", ["fnamed"]), ("gfwd", "FReader", ["fread"]), ("gfwd", "FWriter", ["fwrite"]),
]
# which methods of the hand-written traits cross the boundary as an integer code (everything else of these traits does not)
FIXED_INT = {
    ("multi", "M10"): {"before": False, "coded": True, "after": False, "sized_default": False, "after_unit": False, "last": False},
    ("multi", "M11"): {"open": True, "peek": True, "close": True, "plain": False, "done": True},
    ("assoc", "WObjRes"): {"wres": True, "wres_c": False},
}
FIXED_GROUPS = [
    {"kind": "group", "mod": "assoc", "group": "LeafGroup", "mandatory": ["Leaf"], "optional": ["Leaf2"], "impls": [{"type": "L", "enabled": ["Leaf2"]}], "fixed": True},
    {"kind": "group", "mod": "gcase", "group": "Machine", "mandatory": ["Clock", "CPUState"], "optional": ["Idle", "IOPort", "Vcpu", "VMExit"],
     "impls": [{"type": "M1", "enabled": ["IOPort"]}, {"type": "M2", "enabled": ["Idle", "VMExit", "Vcpu"]}], "fixed": True},
    {"kind": "group", "mod": "ggen", "group": "GGroup", "mandatory": ["GBase"], "optional": ["GTu64", "GTu8"],
     "impls": [{"type": "GI", "enabled": ["GTu64", "GTu8"]}, {"type": "GJ", "enabled": ["GTu8"]}], "fixed": True},
    {"kind": "group", "mod": "gfwd", "group": "FKv", "mandatory": ["FNamed"], "optional": ["FReader", "FWriter"],
     "impls": [{"type": "FStore", "enabled": ["FReader"], "fwd_enabled": ["FReader", "FWriter"]}], "fixed": True},
]


def group_mod(n, idx):
    """Group with n optional traits and one mandatory trait; all 2^n implementing types."""
    name = "G%d%s" % (n, idx)
    src = ["pub mod %s {" % name.lower(), "    use cglue::prelude::v1::*; use cglue::*; use super::common::*;"]
    src.append("    #[cglue_trait] pub trait %sMand { fn mand(&self) -> u32; fn mand_mut(&mut self) -> u32; }" % name)
    opts = []
    # optional trait names chosen so that lexicographic order differs from declaration order
    order = ["Zeta", "Alpha", "Mid", "Beta"][:n]
    for o in order:
        t = "%s%s" % (name, o)
        opts.append(t)
        src.append("    #[cglue_trait] pub trait %s { fn %s(&self) -> u32; fn %s_mut(&mut self, x: u32) -> u32; }" % (t, o.lower(), o.lower()))
    src.append("    cglue_trait_group!(%s, %sMand, { %s });" % (name, name, ", ".join(opts)))
    fixed = [(name.lower(), name + "Mand", ["mand", "mand_mut"])] + [(name.lower(), "%s%s" % (name, o), [o.lower(), o.lower() + "_mut"]) for o in order]
    impls = []
    for mask in range(1 << n):
        ty = "%sI%d" % (name, mask)
        en = [opts[i] for i in range(n) if mask & (1 << i)]
        src.append("    pub struct %s(pub u32);" % ty)
        src.append("    impl %sMand for %s { fn mand(&self) -> u32 { self.0 } fn mand_mut(&mut self) -> u32 { self.0 += 1; self.0 } }" % (name, ty))
        for i, o in enumerate(order):
            if mask & (1 << i):
                src.append("    impl %s%s for %s { fn %s(&self) -> u32 { %d } fn %s_mut(&mut self, x: u32) -> u32 { self.0 = x; %d } }"
                           % (name, o, ty, o.lower(), i, o.lower(), i))
        src.append("    cglue_impl_group!(%s, %s, { %s });" % (ty, name, ", ".join(en)))
        impls.append({"type": ty, "enabled": en})
    src.append("}")
    meta = {"kind": "group", "mod": name.lower(), "group": name, "mandatory": [name + "Mand"], "optional": opts,
            "impls": impls, "vtables": [{"mod": a, "trait": b, "slots": c} for a, b, c in fixed]}
    return "\n".join(src), meta


CASE_GROUP = r'''
pub mod gcase {
    use cglue::prelude::v1::*; use cglue::*; use super::common::*;
    // acronym-style names next to CamelCase ones: byte order of the identifiers differs from the order of their lower-cased forms
    #[cglue_trait] pub trait Clock { fn clock(&self) -> u32; }
    #[cglue_trait] pub trait CPUState { fn cpustate(&self) -> u32; }
    #[cglue_trait] pub trait Idle { fn idle(&self) -> u32; }
    #[cglue_trait] pub trait IOPort { fn ioport(&self) -> u32; }
    #[cglue_trait] pub trait VMExit { fn vmexit(&self) -> u32; }
    #[cglue_trait] pub trait Vcpu { fn vcpu(&self) -> u32; }
    cglue_trait_group!(Machine, { Clock, CPUState }, { Idle, IOPort, Vcpu, VMExit });
    pub struct M1;
    impl Clock for M1 { fn clock(&self) -> u32 { 1 } }
    impl CPUState for M1 { fn cpustate(&self) -> u32 { 2 } }
    impl IOPort for M1 { fn ioport(&self) -> u32 { 3 } }
    cglue_impl_group!(M1, Machine, { IOPort });
    pub struct M2;
    impl Clock for M2 { fn clock(&self) -> u32 { 1 } }
    impl CPUState for M2 { fn cpustate(&self) -> u32 { 2 } }
    impl Idle for M2 { fn idle(&self) -> u32 { 3 } }
    impl VMExit for M2 { fn vmexit(&self) -> u32 { 4 } }
    impl Vcpu for M2 { fn vcpu(&self) -> u32 { 5 } }
    cglue_impl_group!(M2, Machine, { Idle, VMExit, Vcpu });
}
'''

GENERIC_GROUP = r'''
pub mod ggen {
    use cglue::prelude::v1::*; use cglue::*; use super::common::*;
    #[cglue_trait] pub trait GT<T: Copy> { fn gt(&self, v: T) -> T; }
    #[cglue_trait] pub trait GBase { fn gbase(&self) -> u8; }
    // aliased generic instantiations of the same trait as distinct optional entries
    cglue_trait_group!(GGroup, GBase, { GT<u64> = GTu64, GT<u8> = GTu8 });
    pub struct GI(pub u8);
    impl GBase for GI { fn gbase(&self) -> u8 { self.0 } }
    impl GT<u64> for GI { fn gt(&self, v: u64) -> u64 { v } }
    impl GT<u8> for GI { fn gt(&self, v: u8) -> u8 { v } }
    cglue_impl_group!(GI, GGroup, { GT<u64> = GTu64, GT<u8> = GTu8 });
    pub struct GJ(pub u8);
    impl GBase for GJ { fn gbase(&self) -> u8 { self.0 } }
    impl GT<u8> for GJ { fn gt(&self, v: u8) -> u8 { v } }
    cglue_impl_group!(GJ, GGroup, { GT<u8> = GTu8 });
}
'''




FWD_GROUP = r'''
pub mod gfwd {
    use cglue::prelude::v1::*; use cglue::*; use super::common::*;
    #[cglue_trait] #[cglue_forward] pub trait FNamed { fn fnamed(&self) -> u8; }
    #[cglue_trait] #[cglue_forward] pub trait FReader { fn fread(&self) -> u32; }
    #[cglue_trait] #[cglue_forward] pub trait FWriter { fn fwrite(&mut self, v: u32); }
    cglue_trait_group!(FKv, FNamed, { FReader, FWriter });
    pub struct FStore(pub u32);
    impl FNamed for FStore { fn fnamed(&self) -> u8 { 1 } }
    impl FReader for FStore { fn fread(&self) -> u32 { self.0 } }
    impl FWriter for FStore { fn fwrite(&mut self, v: u32) { self.0 = v } }
    // the owned value is exposed read-only, a forwarded `&mut FStore` read-write: the two lists are independent
    cglue_impl_group!(FStore, FKv, { FReader }, { FReader, FWriter });
}
'''

PAYLOADS = r"""
pub mod payloads {
    use cglue::prelude::v1::*; use cglue::*;
    use super::assoc::*;
    /// Send + Sync
    pub struct PSS(pub u8);
    /// Send + !Sync
    pub struct PSn(pub ::core::cell::Cell<u8>);
    /// !Send + Sync
    pub struct PnS(pub ::std::sync::MutexGuard<'static, u8>);
    /// !Send + !Sync
    pub struct Pnn(pub ::std::rc::Rc<u8>);
    macro_rules! imp { ($($t:ident),*) => { $(
        impl Leaf for $t { fn leaf(&self) -> u32 { 0 } fn leaf_mut(&mut self, x: u32) -> u32 { x } }
        impl Leaf2 for $t { fn leaf2(&self) -> u64 { 0 } }
        cglue_impl_group!($t, LeafGroup, { Leaf2 });
    )* } }
    imp!(PSS, PSn, PnS, Pnn);
}
"""

HANDLES = {
    "ref": "&'static {P}",
    "mut": "&'static mut {P}",
    "cbox": "::cglue::boxed::CBox<'static, {P}>",
    "csbox": "::cglue::boxed::CSliceBox<'static, {P}>",
    "carc": "::cglue::arc::CArc<{P}>",
    "carcsome": "::cglue::arc::CArcSome<{P}>",
    "fwdmut": "::cglue::forward::Fwd<&'static mut {P}>",
    "fwdref": "::cglue::forward::Fwd<&'static {P}>",
    "fwdbox": "::cglue::forward::Fwd<::cglue::boxed::CBox<'static, {P}>>",
}
CTXS = {"noctx": "::cglue::trait_group::NoContext", "arcctx": "::cglue::arc::CArc<::cglue::trait_group::c_void>"}
WRAPPERS = {
    "bare": "{H}",
    "phantom": "::core::marker::PhantomData<{H}>",
    "cont": "::cglue::trait_group::CGlueObjContainer<{H}, {C}, super::assoc::LeafRetTmp<{C}>>",
    "obj": "super::assoc::LeafBase<'static, {H}, {C}>",
    "objret": "super::assoc::WObjRefBase<'static, {H}, {C}>",
    "group": "super::assoc::LeafGroup<'static, {H}, {C}>",
    "gcont": "super::assoc::LeafGroupContainer<{H}, {C}>",
    "gwith": "super::assoc::LeafGroupWithLeaf2<'static, {H}, {C}>",
}
PAYLOAD_NAMES = ["PSS", "PSn", "PnS", "Pnn"]


GROUP_PROBES = []


def with_names(group, opts):
    """Names of With-variants as the generator forms them: optional traits in name order."""
    out = []
    so = sorted(opts)
    for mask in range(1, 1 << len(so)):
        sel = [so[i] for i in range(len(so)) if mask & (1 << i)]
        out.append(group + "With" + "".join(sel))
    return out


def probes_mod():
    out = ["pub mod probes {", "    use super::payloads::*;"]
    meta = []
    for w, wt in WRAPPERS.items():
        for h, ht in HANDLES.items():
            for c, ct in CTXS.items():
                if w in ("bare", "phantom") and c != "noctx":
                    continue
                for pl in PAYLOAD_NAMES:
                    name = "SS_%s_%s_%s_%s" % (w, h, c, pl)
                    H = ht.replace("{P}", pl)
                    ty = wt.replace("{H}", H).replace("{C}", ct)
                    out.append("    pub type %s = %s;" % (name, ty))
                    meta.append({"name": name, "wrapper": w, "handle": h, "ctx": c, "payload": pl})
    # reference rows: the std handle each smart pointer is built from
    for pl in PAYLOAD_NAMES:
        for n, t in (("box", "::std::boxed::Box<%s>"), ("boxslice", "::std::boxed::Box<[%s]>"), ("arc", "::std::sync::Arc<%s>"),
                     ("vec", "::std::vec::Vec<%s>"), ("cvec", "::cglue::vec::CVec<%s>")):
            out.append("    pub type RF_%s_%s = %s;" % (n, pl, t % pl))
    out.append("    pub type SS_unit = ();")
    out.append("    pub type SS_cvoid = ::cglue::trait_group::c_void;")
    # handle/context aliases used by the driver's automatic probes: every local generic ADT with an Opaquable impl
    # (group, group container, With-variants, ...) is instantiated with each of them -- no generated name is spelled here
    out.append("    pub mod auto_handles {")
    out.append("        use super::super::payloads::*;")
    for h in ("cbox", "ref", "mut", "carc", "carcsome", "fwdmut"):
        for pl in PAYLOAD_NAMES:
            out.append("        pub type AH_%s_%s = %s;" % (h, pl, HANDLES[h].replace("{P}", pl)))
    out.append("        pub type AC_noctx = %s;" % CTXS["noctx"])
    out.append("        pub type AC_arcctx = %s;" % CTXS["arcctx"])
    out.append("    }")
    # layout-only probes of shipped wrapper types, monomorphic
    for name, ty in LAYOUT_PROBES.items():
        out.append("    pub type LY_%s = %s;" % (name, ty))
    out.append("}")
    return "\n".join(out), meta


LAYOUT_PROBES = {
    "CBox_u64": "::cglue::boxed::CBox<'static, u64>",
    "CBox_void": "::cglue::boxed::CBox<'static, ::cglue::trait_group::c_void>",
    "CSliceBox_u64": "::cglue::boxed::CSliceBox<'static, u64>",
    "CArc_u64": "::cglue::arc::CArc<u64>",
    "CArc_void": "::cglue::arc::CArc<::cglue::trait_group::c_void>",
    "CArcSome_u64": "::cglue::arc::CArcSome<u64>",
    "CArcSome_void": "::cglue::arc::CArcSome<::cglue::trait_group::c_void>",
    "CSliceRef_u8": "::cglue::slice::CSliceRef<'static, u8>",
    "CSliceRef_u64": "::cglue::slice::CSliceRef<'static, u64>",
    "CSliceMut_u8": "::cglue::slice::CSliceMut<'static, u8>",
    "CSliceMut_u64": "::cglue::slice::CSliceMut<'static, u64>",
    "CVec_u8": "::cglue::vec::CVec<u8>",
    "CVec_u64": "::cglue::vec::CVec<u64>",
    "COption_u8": "::cglue::option::COption<u8>",
    "COption_u64": "::cglue::option::COption<u64>",
    "CResult_u8_u64": "::cglue::result::CResult<u8, u64>",
    "CResult_u64_u8": "::cglue::result::CResult<u64, u8>",
    "CTup1": "::cglue::tuple::CTup1<u8>",
    "CTup2": "::cglue::tuple::CTup2<u8, u64>",
    "CTup3": "::cglue::tuple::CTup3<u8, u64, u16>",
    "CTup4": "::cglue::tuple::CTup4<u8, u64, u16, u32>",
    "Callback": "::cglue::callback::Callback<'static, u64, u32>",
    "OpaqueCallback": "::cglue::callback::OpaqueCallback<'static, u32>",
    "CIterator": "::cglue::iter::CIterator<'static, u32>",
    "ReprCString": "::cglue::repr_cstring::ReprCString",
    "ReprCStr": "::cglue::repr_cstring::ReprCStr<'static>",
    "Fwd": "::cglue::forward::Fwd<&'static mut u64>",
    "CRefWaker": "::cglue::task::CRefWaker<'static>",
    "TraitObj": "super::assoc::LeafBox<'static>",
    "TraitObjArc": "super::assoc::LeafArcBox<'static>",
    "TraitObjRetTmp": "super::assoc::WObjRefArcBox<'static>",
    "Container": "::cglue::trait_group::CGlueObjContainer<::cglue::boxed::CBox<'static, ::cglue::trait_group::c_void>, ::cglue::trait_group::NoContext, super::assoc::LeafRetTmp<::cglue::trait_group::NoContext>>",
    "Group": "super::assoc::LeafGroupBox<'static>",
    "GroupArc": "super::assoc::LeafGroupArcBox<'static>",
    "GroupWith": "super::assoc::LeafGroupWithLeaf2<'static, ::cglue::boxed::CBox<'static, ::cglue::trait_group::c_void>, ::cglue::trait_group::NoContext>",
}


def ffi_probes(metas, tier):
    """`extern "C"` declaration probes: user-written spans, so rustc's improper_ctypes lint runs on them and
    recurses object -> &vtable -> every slot -> every argument/return type."""
    out = ["#[warn(improper_ctypes)]", "pub mod ffi_probes {", "    use super::*;", '    extern "C" {']
    names = []
    kinds = ["Box", "ArcBox", "Mut", "ArcRef"] if tier == "thorough" else ["Box", "ArcRef"]
    for m in metas:
        if m["kind"] == "single":
            for k in kinds:
                n = "ffi_%s_%s" % (m["mod"], k.lower())
                if m["args"] in NO_LAYOUT_CHECKS_ARGS or m["ret"] in NO_LAYOUT_CHECKS_RETS:
                    out.append('        #[cfg(not(feature = "layout_checks"))]')
                out.append("        pub fn %s(_: super::%s::%s%s<'static>);" % (n, m["mod"], m["trait"], k))
                names.append({"fn": n, "item": m["mod"], "kind": k})
        elif m["kind"] == "group":
            for k in kinds:
                n = "ffi_%s_%s" % (m["mod"], k.lower())
                out.append("        pub fn %s(_: super::%s::%s%s<'static>);" % (n, m["mod"], m["group"], k))
                names.append({"fn": n, "item": m["mod"], "kind": k})
    extra = {
        "multi_m1": "super::multi::M1Box<'static>", "multi_m1arc": "super::multi::M1ArcBox<'static>",
        "multi_m2": "super::multi::M2Box<'static, u32>", "multi_m3": "super::multi::M3Box<'static>",
        "multi_m4": "super::multi::M4Box<'static>", "multi_m5": "super::multi::M5Box<'static>",
        "multi_m6": "super::multi::M6Box<'static, u32>",
        "assoc_leaf": "super::assoc::LeafBox<'static>", "assoc_leafgroup": "super::assoc::LeafGroupBox<'static>",
        "assoc_leafgrouparc": "super::assoc::LeafGroupArcBox<'static>",
        "assoc_wobj": "super::assoc::WObjBox<'static>", "assoc_wobjarc": "super::assoc::WObjArcBox<'static>",
        "assoc_wobjref": "super::assoc::WObjRefBox<'static>", "assoc_wobjrefarc": "super::assoc::WObjRefArcBox<'static>",
        "assoc_wobjmut": "super::assoc::WObjMutBox<'static>",
        "assoc_wgroup": "super::assoc::WGroupBox<'static>", "assoc_wgroupref": "super::assoc::WGroupRefBox<'static>",
        "assoc_wgroupmut": "super::assoc::WGroupMutArcBox<'static>",
        "assoc_wobjres": "super::assoc::WObjResBox<'static>", "assoc_wplain": "super::assoc::WPlainBox<'static>",
        "assoc_wself": "super::assoc::WSelfBox<'static>", "assoc_wgat": "super::assoc::WGatBox<'static>",
        "ggen": "super::ggen::GGroupBox<'static>",
        "gcase": "super::gcase::MachineArcBox<'static>",
    }
    for n, t in extra.items():
        out.append("        pub fn ffi_%s(_: %s);" % (n, t))
        names.append({"fn": "ffi_" + n, "item": n, "kind": "extra"})
    for n, t in LAYOUT_PROBES.items():
        t = t.replace("super::", "super::")
        out.append("        pub fn ffi_ly_%s(_: %s);" % (n.lower(), t))
        names.append({"fn": "ffi_ly_" + n.lower(), "item": n, "kind": "runtime"})
    # positive controls: must be reported by the lint on every run
    out.append('        #[cfg(not(feature = "layout_checks"))]')
    out.append("        pub fn ffi_control_tuple(_: super::ffi_controls::BadTupleBox<'static>);")
    out.append('        #[cfg(not(feature = "layout_checks"))]')
    out.append("        pub fn ffi_control_rustfn(_: super::ffi_controls::BadFnBox<'static>);")
    out.append("    }")
    out.append("}")
    out.append("""
#[cfg(not(feature = "layout_checks"))]
pub mod ffi_controls {
    use cglue::prelude::v1::*; use cglue::*;
    /// deliberately not FFI-safe: a tuple argument (not in the grammar of auto-wrapped shapes)
    #[cglue_trait] pub trait BadTuple { fn m(&self, t: (u8, u8)); }
    /// deliberately not FFI-safe: a Rust-ABI function pointer argument
    #[cglue_trait] pub trait BadFn { fn m(&self, f: fn(u8) -> u8); }
}
""")
    return "\n".join(out), names


def main():
    out = sys.argv[1]
    tier = sys.argv[2] if len(sys.argv) > 2 else "quick"
    os.makedirs(os.path.join(out, "src"), exist_ok=True)
    combos, excl = all_singles(tier)
    metas = []
    mods = []
    for i, c in enumerate(combos):
        s, m = single_trait(i, *c)
        mods.append(s)
        metas.append(m)
    groups = []
    maxn = 4 if tier == "thorough" else 2
    for n in range(0, maxn + 1):
        s, m = group_mod(n, "a")
        mods.append(s)
        metas.append(m)
    for m in metas:
        if m["kind"] == "group":
            GROUP_PROBES.append({"mod": m["mod"], "variants": [m["group"], m["group"] + "Container"] + with_names(m["group"], m["optional"])})
    GROUP_PROBES.append({"mod": "ggen", "variants": ["GGroup", "GGroupContainer", "GGroupWithGTu64", "GGroupWithGTu8", "GGroupWithGTu64GTu8"]})
    pm, pmeta = probes_mod()
    fm, fmeta = ffi_probes(metas, tier)
    lib = HEADER + "pub use cglue;\n// wrap_with_*_ref expansions name `crate::trait_group` (generator quirk): provide it.\npub use cglue::trait_group;\n" + COMMON + "\n".join(mods) + MULTI + ASSOC + GENERIC_GROUP + CASE_GROUP + FWD_GROUP + PAYLOADS + pm + "\n" + fm
    extra = os.path.join(os.path.dirname(os.path.abspath(__file__)), "static")
    if os.path.isdir(extra):
        for f in sorted(os.listdir(extra)):
            if f.endswith(".rs"):
                with open(os.path.join(extra, f)) as fh:
                    lib += "\n" + fh.read()
    with open(os.path.join(out, "src", "lib.rs"), "w") as fh:
        fh.write(lib)
    repo = os.environ.get("CGV_REPO", "/repo")
    with open(os.path.join(out, "Cargo.toml"), "w") as fh:
        fh.write("""[package]
name = "cgv_corpus"
version = "0.1.0"
edition = "2018"

[workspace]

[lib]
path = "src/lib.rs"

[dependencies]
cglue = { path = "%s/cglue", features = ["task"] }
abi_stable = { version = "0.10", optional = true }

[features]
layout_checks = ["cglue/layout_checks", "abi_stable"]
""" % repo)
    with open(os.path.join(out, "expect.json"), "w") as fh:
        metas = metas + [{"kind": "fixed", "mod": a, "trait": b, "slots": c, "int": FIXED_INT.get((a, b))} for a, b, c in FIXED_EXPECT] + FIXED_GROUPS
        json.dump({"tier": tier, "items": metas, "excluded": excl, "n_singles": len(combos), "probes": pmeta, "ffi": fmeta}, fh, indent=1)
    print("corpus: %d single-method traits, %d excluded combinations" % (len(combos), len(excl)))


if __name__ == "__main__":
    main()
