"""CFG, dominators, def-use origin tracing and small path analyses over the driver's MIR facts."""
import functools


class Body:
    def __init__(self, fn, body=None):
        self.fn = fn
        b = body if body is not None else fn["body"]
        self.argc = b["argc"]
        self.locals = b["locals"]
        self.blocks = b["blocks"]
        self.n = len(self.blocks)
        self._succ = [self._succs(i) for i in range(self.n)]
        self._pred = [[] for _ in range(self.n)]
        for i, ss in enumerate(self._succ):
            for s in ss:
                self._pred[s].append(i)
        self._defs = None
        self._dom = None
        self._pdom = None
        self._reach_cache = {}
        self._origin_memo = {}

    # ---- CFG (unwind/cleanup edges excluded) ----
    def _succs(self, i):
        t = self.blocks[i]["t"]
        k = t["k"]
        if k == "goto":
            return [t["t"]]
        if k == "switch":
            out = []
            for _, bb in t["targets"]:
                if bb not in out:
                    out.append(bb)
            if t["otherwise"] not in out:
                out.append(t["otherwise"])
            return out
        if k in ("drop", "assert"):
            return [t["t"]]
        if k == "call":
            return [t["t"]] if t["t"] is not None else []
        return []

    def succ(self, i):
        return self._succ[i]

    def pred(self, i):
        return self._pred[i]

    def live_blocks(self):
        """Blocks reachable from entry over normal edges."""
        seen = set()
        st = [0]
        while st:
            b = st.pop()
            if b in seen:
                continue
            seen.add(b)
            st.extend(self._succ[b])
        return seen

    def return_blocks(self):
        live = self.live_blocks()
        return [i for i in sorted(live) if self.blocks[i]["t"]["k"] == "return"]

    def reaches(self, a, b):
        """Is there a non-empty path a -> ... -> b over normal edges?"""
        key = a
        if key not in self._reach_cache:
            seen = set()
            st = list(self._succ[a])
            while st:
                x = st.pop()
                if x in seen:
                    continue
                seen.add(x)
                st.extend(self._succ[x])
            self._reach_cache[key] = seen
        return b in self._reach_cache[key]

    def in_cycle(self, b):
        return self.reaches(b, b)

    def dominators(self):
        if self._dom is None:
            live = sorted(self.live_blocks())
            dom = {b: set(live) for b in live}
            dom[0] = {0}
            changed = True
            while changed:
                changed = False
                for b in live:
                    if b == 0:
                        continue
                    ps = [p for p in self._pred[b] if p in dom]
                    new = set(live)
                    for p in ps:
                        new &= dom[p]
                    new = new | {b}
                    if new != dom[b]:
                        dom[b] = new
                        changed = True
            self._dom = dom
        return self._dom

    def dominates(self, a, b):
        d = self.dominators()
        return b in d and a in d[b]

    def on_all_paths_to_return(self, b):
        """b lies on every entry->return path (b dominates every live return block)."""
        rets = self.return_blocks()
        return all(self.dominates(b, r) for r in rets) and bool(rets)

    def paths_to_return(self, limit=4000):
        """Enumerate acyclic entry->return paths (lists of block indices); loops are cut (each block once)."""
        out = []
        stack = [(0, [0])]
        while stack:
            b, path = stack.pop()
            if self.blocks[b]["t"]["k"] == "return":
                out.append(path)
                if len(out) > limit:
                    raise RuntimeError("too many paths")
                continue
            for s in self._succ[b]:
                if s in path:
                    continue
                stack.append((s, path + [s]))
        return out

    # ---- calls ----
    def calls(self, live_only=True):
        live = self.live_blocks() if live_only else set(range(self.n))
        out = []
        for i in sorted(live):
            t = self.blocks[i]["t"]
            if t["k"] == "call":
                out.append((i, t))
        return out

    # ---- definitions ----
    def defs(self):
        """local -> list of (bb, idx|'t', kind, payload); whole-local assignments only, plus partial list."""
        if self._defs is None:
            d = {}
            part = {}
            live = self.live_blocks()
            for i in sorted(live):
                bb = self.blocks[i]
                for j, s in enumerate(bb["s"]):
                    if s["k"] == "assign":
                        p = s["p"]
                        if not p["p"]:
                            d.setdefault(p["l"], []).append((i, j, "rv", s["r"]))
                        else:
                            part.setdefault(p["l"], []).append((i, j, p["p"], s["r"]))
                t = bb["t"]
                if t["k"] == "call":
                    p = t["d"]
                    if not p["p"]:
                        d.setdefault(p["l"], []).append((i, "t", "call", t))
                    else:
                        part.setdefault(p["l"], []).append((i, "t", p["p"], t))
            self._defs = d
            self._part = part
        return self._defs

    def partial_defs(self):
        self.defs()
        return self._part

    # ---- origins ----
    def origin_local(self, l, depth=0):
        if l in self._origin_memo:
            v = self._origin_memo[l]
            return ("cycle", l) if v is None else v
        self._origin_memo[l] = None
        defs = self.defs().get(l, [])
        if not defs:
            if 1 <= l <= self.argc:
                o = ("arg", l)
            else:
                parts = self.partial_defs().get(l)
                if parts:
                    fields = {}
                    for (_, _, proj, r) in parts:
                        key = tuple(tuple(x) for x in proj)
                        fields.setdefault(key, []).append(r)
                    o = ("partial", l, {k: [self._origin_rv_or_call(r, depth + 1) for r in v] for k, v in fields.items()})
                else:
                    o = ("uninit", l)
        elif len(defs) == 1:
            o = self._origin_def(defs[0], depth + 1)
        else:
            o = ("phi", tuple(self._origin_def(d, depth + 1) for d in defs))
        self._origin_memo[l] = o
        return o

    def _origin_rv_or_call(self, r, depth):
        if r.get("k") == "call":
            return self._origin_call(r, depth, None)
        return self.origin_rvalue(r, depth)

    def _origin_def(self, d, depth):
        bb, idx, kind, payload = d
        if kind == "call":
            return self._origin_call(payload, depth, bb)
        return self.origin_rvalue(payload, depth)

    def _origin_call(self, t, depth, bb):
        callee = t.get("callee")
        args = tuple(self.origin_operand(a, depth + 1) for a in t["args"])
        if callee is None:
            return ("icall", self.origin_operand(t["f"], depth + 1), args, bb)
        return ("call", callee["path"], args, bb, _freeze_callee(callee))

    def origin_place(self, p, depth=0):
        o = self.origin_local(p["l"], depth)
        for e in p["p"]:
            if e[0] == "d":
                o = simp(("deref", o))
            elif e[0] == "f":
                o = simp(("field", o, e[2]))
            elif e[0] == "dc":
                o = simp(("downcast", o, e[1]))
            else:
                o = ("proj", o, tuple(e))
        return o

    def origin_operand(self, op, depth=0):
        if depth > 60:
            return ("deep",)
        if "c" in op:
            return self.origin_place(op["c"], depth)
        if "m" in op:
            return self.origin_place(op["m"], depth)
        if "k" in op:
            c = op["k"]
            if "fn" in c:
                return ("fnconst", c["fn"]["path"], _freeze_callee(c["fn"]))
            if "int" in c:
                return ("const", int(c["int"]), c["ty"])
            if "str" in c:
                return ("conststr", c["str"])
            if "uneval" in c:
                return ("uneval", c["uneval"], c.get("promoted"))
            return ("constv", c.get("v"), c["ty"])
        if "fnconst" in op:
            return ("fnconst?",)
        return ("unknown",)

    def origin_rvalue(self, r, depth=0):
        k = r["k"]
        if k == "use":
            return self.origin_operand(r["o"], depth + 1)
        if k == "ref":
            return simp(("ref", self.origin_place(r["p"], depth + 1), r["bk"] == "mut"))
        if k == "rawptr":
            return simp(("ref", self.origin_place(r["p"], depth + 1), r["mut"]))
        if k == "cast":
            return ("cast", r["ck"], self.origin_operand(r["o"], depth + 1), r["ty"], r.get("from_ty"))
        if k == "bin":
            return ("bin", r["op"], self.origin_operand(r["a"], depth + 1), self.origin_operand(r["b"], depth + 1))
        if k == "un":
            return ("un", r["op"], self.origin_operand(r["o"], depth + 1))
        if k == "discr":
            return ("discr", self.origin_place(r["p"], depth + 1))
        if k == "agg":
            ops = tuple(self.origin_operand(o, depth + 1) for o in r["ops"])
            if r["ak"] == "adt":
                return ("agg", r["adt"], r["variant"], tuple(r["fields"]), ops)
            if r["ak"] == "closure":
                return ("agg", "closure:" + r["closure"], "", (), ops)
            return ("agg", r["ak"], "", tuple(str(i) for i in range(len(ops))), ops)
        if k == "repeat":
            return ("repeat", self.origin_operand(r["o"], depth + 1))
        return ("unknown", k)


def _freeze_callee(c):
    return (c.get("path"), tuple(c.get("args", [])), c.get("trait"), (c.get("res") or {}).get("path"),
            (c.get("via_from") or {}).get("impl_path"))


def simp(o):
    """Local simplifications: *&x = x ; (agg).f = operand f ; tuple fields by index."""
    if o[0] == "deref" and o[1][0] == "ref":
        return o[1][1]
    if o[0] == "field" and o[1][0] == "agg":
        agg = o[1]
        names = agg[3]
        if o[2] in names:
            return agg[4][names.index(o[2])]
    if o[0] == "downcast" and o[1][0] == "agg":
        return o[1]
    return o


def strip(o, casts=True, refs=True):
    """Strip reborrows / pointer casts / copies from an origin."""
    while True:
        if refs and o[0] == "ref":
            o = o[1]
            continue
        if refs and o[0] == "deref":
            o = o[1]
            continue
        if casts and o[0] == "cast" and o[1] in ("PtrToPtr", "Transmute") or (casts and o[0] == "cast" and o[1].startswith("PointerCoercion")):
            o = o[2]
            continue
        return o


def walk(o):
    """Yield every sub-origin (pre-order)."""
    yield o
    if not isinstance(o, tuple):
        return
    for x in o[1:]:
        if isinstance(x, tuple) and x and isinstance(x[0], str):
            yield from walk(x)
        elif isinstance(x, tuple):
            for y in x:
                if isinstance(y, tuple) and y and isinstance(y[0], str):
                    yield from walk(y)
        elif isinstance(x, dict):
            for v in x.values():
                for y in v:
                    yield from walk(y)


def contains(o, pred):
    return any(pred(x) for x in walk(o))


def fmt(o, depth=0):
    if not isinstance(o, tuple) or not o:
        return str(o)
    k = o[0]
    if depth > 8:
        return "…"
    if k == "arg":
        return "arg%d" % o[1]
    if k == "field":
        return "%s.%s" % (fmt(o[1], depth + 1), o[2])
    if k == "deref":
        return "*%s" % fmt(o[1], depth + 1)
    if k == "ref":
        return "&%s%s" % ("mut " if o[2] else "", fmt(o[1], depth + 1))
    if k == "call":
        return "%s(%s)" % (o[1], ", ".join(fmt(a, depth + 1) for a in o[2]))
    if k == "icall":
        return "(%s)(%s)" % (fmt(o[1], depth + 1), ", ".join(fmt(a, depth + 1) for a in o[2]))
    if k == "cast":
        return "%s as[%s] %s" % (fmt(o[2], depth + 1), o[1], o[3])
    if k == "agg":
        return "%s{%s}" % (o[1], ", ".join("%s: %s" % (n, fmt(v, depth + 1)) for n, v in zip(o[3], o[4])))
    if k == "phi":
        return "phi(%s)" % ", ".join(fmt(a, depth + 1) for a in o[1])
    if k == "const":
        return str(o[1])
    if k == "fnconst":
        return "fn:" + o[1]
    if k == "downcast":
        return "%s as %s" % (fmt(o[1], depth + 1), o[2])
    if k == "bin":
        return "(%s %s %s)" % (fmt(o[2], depth + 1), o[1], fmt(o[3], depth + 1))
    if k == "discr":
        return "discr(%s)" % fmt(o[1], depth + 1)
    return str(o)[:120]


def bodies(fn):
    """Main body and promoted bodies of a function fact."""
    out = [Body(fn)]
    for p in fn.get("promoted", []):
        out.append(Body(fn, p))
    return out


def callee_path(t):
    c = t.get("callee")
    return c["path"] if c else None


def callee_res(t):
    c = t.get("callee")
    if not c:
        return None
    r = c.get("res")
    return r["path"] if r else c["path"]


# ---- discriminant switches and arms ------------------------------------------------------------------

def discr_switches(body):
    """[(bb, scrutinee origin, {value: target}, otherwise)] for live switch terminators."""
    out = []
    live = body.live_blocks()
    for i in sorted(live):
        t = body.blocks[i]["t"]
        if t["k"] == "switch":
            out.append((i, body.origin_operand(t["o"]), {int(v): bb for v, bb in t["targets"]}, t["otherwise"]))
    return out


def enum_arms(body, sw, nvariants=2):
    """{variant index: target} of a discriminant switch, with `otherwise` standing for the one variant not listed (`if let` / `_ =>`
    and a two-armed `match` produce different terminators for the same dispatch).  An unreachable `otherwise` adds nothing."""
    tg = dict(sw[2])
    oth = sw[3]
    missing = [v for v in range(nvariants) if v not in tg]
    if len(missing) == 1 and oth is not None and body.blocks[oth]["t"]["k"] != "unreachable":
        tg[missing[0]] = oth
    return tg


def some_region(body, arg):
    """Blocks in which the Option-typed parameter `arg` is known to be Some, and the origins its payload has there:
    `match`/`if let` on the parameter itself, or `let p = arg?;` (the Continue arm of Try::branch(arg))."""
    blocks, payloads = set(), [("field", ("downcast", ("arg", arg), "Some"), "0")]
    for sw in discr_switches(body):
        o = sw[1]
        if o == ("discr", ("arg", arg)):
            arms = enum_arms(body, sw)
            if 1 in arms:
                blocks |= dominated(body, arms[1])
        elif o[0] == "discr" and o[1][0] == "call" and o[1][1] == "std::ops::Try::branch" and strip(o[1][2][0]) == ("arg", arg):
            arms = enum_arms(body, sw)
            if 0 in arms:
                blocks |= dominated(body, arms[0])
                payloads.append(("field", ("downcast", o[1], "Continue"), "0"))
    return blocks, payloads


def zero_tests(body):
    """[(bb, tested origin, zero_target, nonzero_target)] for every live switch that separates `x == 0` from `x != 0`:
    `if x == 0`, `if x != 0`, `match x { 0 => .., _ => .. }` all normalise to the same tuple."""
    out = []
    for (i, o, tg, oth) in discr_switches(body):
        s = deepstrip(o)
        if s[0] == "bin" and s[1] in ("Eq", "Ne") and len(s) > 3 and (s[3][0] == "const" and s[3][1] == 0 or s[2][0] == "const" and s[2][1] == 0):
            x = s[2] if s[3][0] == "const" else s[3]
            f_bb, t_bb = tg.get(0), (tg.get(1) if 1 in tg else oth)
            if f_bb is None or t_bb is None:
                continue
            out.append((i, x, t_bb, f_bb) if s[1] == "Eq" else (i, x, f_bb, t_bb))
        elif s[0] not in ("bin", "discr") and set(tg) == {0} and oth is not None and body.blocks[oth]["t"]["k"] != "unreachable":
            out.append((i, s, tg[0], oth))
    return out


def dominated(body, b):
    """Set of live blocks dominated by b."""
    return {x for x in body.live_blocks() if body.dominates(b, x)}


def calls_in(body, blocks):
    return [(i, t) for i, t in body.calls() if i in blocks]


def assigns_to(body, local, blocks=None):
    """[(bb, rvalue|call-terminator)] whole-local definitions of `local` (optionally restricted to blocks)."""
    out = []
    for d in body.defs().get(local, []):
        if blocks is None or d[0] in blocks:
            out.append((d[0], d[3], d[2]))
    return out


def deepstrip(o):
    """Remove every ref/deref node at all levels (places behind references compare equal to the places themselves)."""
    if not isinstance(o, tuple) or not o:
        return o
    if o[0] in ("ref", "deref"):
        return deepstrip(o[1])
    out = []
    for x in o:
        if isinstance(x, tuple) and x and isinstance(x[0], str):
            out.append(deepstrip(x))
        elif isinstance(x, tuple):
            out.append(tuple(deepstrip(y) if isinstance(y, tuple) else y for y in x))
        else:
            out.append(x)
    return tuple(out)


WRAPPERS = ("std::ops::Deref::deref", "std::ops::DerefMut::deref_mut")


def peel(o, through_manuallydrop=True):
    """The value an origin designates once borrows, pointer casts, `Deref` of a wrapper and `ManuallyDrop::new(..)` are looked through:
    `&*ManuallyDrop::new(x)`, `&mut *deref_mut(&mut md)`, `x as *const _` all peel to x."""
    while True:
        o = strip(o)
        if o[0] == "cast":
            o = o[2]
            continue
        if o[0] == "call" and (o[1] in WRAPPERS or (through_manuallydrop and o[1].endswith("ManuallyDrop::<T>::new"))) and o[2]:
            o = o[2][0]
            continue
        if o[0] == "call" and o[1].endswith(("<impl *const T>::cast", "<impl *mut T>::cast", "<impl *mut T>::cast_const", "<impl *const T>::cast_mut")) and o[2]:
            o = o[2][0]      # `ptr.cast::<U>()` is `ptr as *const U`
            continue
        return o


def peel_place(o):
    """`peel` applied at every level of a field/downcast projection: `(*deref(&ManuallyDrop::new(x))).f` designates `x.f`."""
    o = peel(o)
    if o[0] in ("field", "downcast"):
        return (o[0], peel_place(o[1])) + tuple(o[2:])
    return o


def erase_callsites(o):
    """Origins with the block index of calls removed: two reads through separate `Deref::deref(&x)` calls compare equal."""
    if not isinstance(o, tuple) or not o:
        return o
    if o[0] == "call":
        return ("call", o[1], tuple(erase_callsites(a) for a in o[2]))
    if o[0] == "icall":
        return ("icall", erase_callsites(o[1]), tuple(erase_callsites(a) for a in o[2]))
    out = []
    for x in o:
        if isinstance(x, tuple) and x and isinstance(x[0], str):
            out.append(erase_callsites(x))
        elif isinstance(x, tuple):
            out.append(tuple(erase_callsites(y) if isinstance(y, tuple) else y for y in x))
        else:
            out.append(x)
    return tuple(out)
