"""Whole-crate call graph over MIR facts (direct calls, fn items used as operands, closures) and reachability."""
from . import mir

ORDER_EXPOSING = ("iter", "iter_mut", "into_iter", "keys", "values", "values_mut", "into_keys", "into_values", "drain", "retain", "extract_if")
NONDET_CALLS = ("std::time::SystemTime::now", "std::time::Instant::now", "std::thread::spawn", "std::env::var", "std::env::vars",
                "std::env::var_os", "std::fs::read_dir", "std::process::id", "std::thread::current")


def _walk_consts(o, out):
    if isinstance(o, dict):
        if "fn" in o and isinstance(o["fn"], dict) and "path" in o["fn"]:
            out.append(o["fn"])
        if o.get("ak") == "closure" and "closure" in o:
            out.append({"path": o["closure"], "closure": True})
        for v in o.values():
            _walk_consts(v, out)
    elif isinstance(o, list):
        for v in o:
            _walk_consts(v, out)


class CallGraph:
    def __init__(self, fns):
        self.fns = {}
        for f in fns:
            self.fns.setdefault(f["path"], f)
        self.edges = {}
        self.sites = {}   # caller path -> list of (callee record, line)
        # trait-impl methods per local ADT: an external generic callee instantiated with a local type may call them
        # (e.g. syn::parse::<TraitGroup> -> <TraitGroup as Parse>::parse); added conservatively.
        impl_fns = {}
        for p, f in self.fns.items():
            if f.get("impl_trait") and f.get("impl_self_adt"):
                impl_fns.setdefault(f["impl_self_adt"], []).append(p)
        self.impl_fns = impl_fns
        adt_names = sorted(impl_fns, key=len, reverse=True)

        def generic_edges(c, outs):
            if c["path"] in self.fns:
                return
            for a in c.get("args", []):
                for ad in adt_names:
                    if ad in a:
                        outs.update(impl_fns[ad])

        for p, f in self.fns.items():
            outs = set()
            sites = []
            for body in [f["body"]] + f.get("promoted", []):
                for bb in body["blocks"]:
                    t = bb["t"]
                    if t["k"] == "call" and t.get("callee"):
                        c = t["callee"]
                        outs.add(c["path"])
                        if c.get("res"):
                            outs.add(c["res"]["path"])
                        generic_edges(c, outs)
                        sites.append((c, t.get("line"), t))
                    cs = []
                    _walk_consts(bb, cs)
                    for c in cs:
                        outs.add(c["path"])
                        if c.get("res"):
                            outs.add(c["res"]["path"])
                        if "args" in c:
                            generic_edges(c, outs)
            self.edges[p] = outs
            self.sites[p] = sites

    def reachable(self, roots, avoid=()):
        """Functions reachable from roots; nodes in `avoid` are not entered (reachability that does not pass through them)."""
        seen = set()
        st = [r for r in roots if r in self.fns and r not in avoid]
        parent = {}
        while st:
            x = st.pop()
            if x in seen:
                continue
            seen.add(x)
            for y in self.edges.get(x, ()):
                if y in self.fns and y not in seen and y not in avoid:
                    parent.setdefault(y, x)
                    st.append(y)
        self.parent = parent
        return seen

    def path_to(self, target):
        out = [target]
        while out[-1] in self.parent:
            out.append(self.parent[out[-1]])
        return list(reversed(out))


UNORDERED = ("std::collections::HashMap<", "std::collections::HashSet<", "std::collections::BTreeMap<", "std::collections::BTreeSet<")
ORDER_FREE_CONSUMERS = ("any", "all", "count", "min", "max", "sum", "product")
ADAPTERS = ("map", "filter", "filter_map", "cloned", "copied", "into_iter", "iter", "flat_map", "chain", "enumerate", "rev", "skip", "take", "inspect", "peekable")


def sink_of_iteration(body, bb):
    """Follow the iterator produced in block bb through adapter calls; returns ('collect', type) | ('extend', type) | ('other', callee)."""
    t = body.blocks[bb]["t"]
    cur = t["d"]["l"]
    nxt = t["t"]
    seen = 0
    while nxt is not None and seen < 12:
        seen += 1
        # find the (unique) call consuming `cur` as its first argument, following moves
        aliases = {cur}
        consumer = None
        for i in sorted(body.live_blocks()):
            for s in body.blocks[i]["s"]:
                if s["k"] == "assign" and s["r"]["k"] == "use" and not s["p"]["p"]:
                    pl = s["r"]["o"].get("m") or s["r"]["o"].get("c")
                    if pl and not pl["p"] and pl["l"] in aliases:
                        aliases.add(s["p"]["l"])
                if s["k"] == "assign" and s["r"]["k"] == "ref" and not s["p"]["p"] and s["r"]["p"]["l"] in aliases:
                    aliases.add(s["p"]["l"])
        for i, tt in body.calls():
            if i == bb:
                continue
            for a in tt["args"][:1]:
                pl = a.get("m") or a.get("c")
                if pl and pl["l"] in aliases:
                    consumer = (i, tt)
        if consumer is None:
            return ("other", "no consuming call (used by reference / loop)")
        i, tt = consumer
        c = tt.get("callee") or {}
        name = c.get("name")
        if name == "collect":
            target = (c.get("args") or ["", ""])[-1]
            body._last_collect_bb = i
            return ("collect", target)
        if name == "extend":
            return ("extend", c.get("self", "") or " ".join(c.get("args", [])))
        if name in ORDER_FREE_CONSUMERS and (c.get("trait") == "std::iter::Iterator"):
            return ("order-free", name)
        if name in ADAPTERS:
            cur = tt["d"]["l"]
            bb = i
            continue
        return ("other", c.get("path"))
    return ("other", "chain too long")


def sink_bb(body, bb):
    return getattr(body, "_last_collect_bb", bb)


def sorted_before_use(body, bb):
    """The Vec collected by the call in block bb is put into canonical order (`sort` / `sort_unstable`, i.e. by the full `Ord` of
    the elements) before anything else reads it: the hash order it was collected in cannot be observed."""
    def uses_collected(o):
        return mir.contains(o, lambda x: isinstance(x, tuple) and x and x[0] == "call" and len(x) > 3 and x[3] == bb)
    sorts, others = [], []
    for i, t in body.calls():
        if i == bb:
            continue
        if any(uses_collected(body.origin_operand(a)) for a in t["args"]):
            c = t.get("callee") or {}
            if c.get("name") in ("sort", "sort_unstable") and "slice" in (c.get("path") or ""):
                sorts.append(i)
            elif c.get("name") in ("deref_mut", "as_mut_slice", "deref", "as_mut"):
                continue
            else:
                others.append(i)
    if len(sorts) != 1:
        return False
    return body.dominates(bb, sorts[0]) and all(body.dominates(sorts[0], o) for o in others)


def order_free_sink(body, bb, kind=None, what=None):
    """Text describing why the hash-ordered sequence produced in block bb cannot influence the result, or None:
    it is collected into an unordered/sorted collection, into a Vec that is sorted before any other use, or consumed by an
    order-insensitive reduction (any/all/count/min/max/sum/product)."""
    if kind is None:
        kind, what = sink_of_iteration(body, bb)
    if kind in ("collect", "extend") and any(what.startswith(u) or u in what for u in UNORDERED):
        return what
    if kind == "collect" and what.startswith("std::vec::Vec<") and sorted_before_use(body, sink_bb(body, bb)):
        return "Vec, sorted before any other use"
    if kind == "order-free":
        return "order-insensitive reduction `%s`" % what
    return None


def is_hash_type(s):
    return "std::collections::HashMap<" in s or "std::collections::HashSet<" in s or "hash_map::" in s or "hash_set::" in s \
        or "std::collections::hash::map::" in s or "std::collections::hash::set::" in s


HASH_TOP = ("std::collections::HashMap<", "std::collections::HashSet<", "std::collections::hash_map::", "std::collections::hash_set::",
            "std::collections::hash::map::", "std::collections::hash::set::")
ORDER_FREE_SELF = ("std::collections::HashMap<", "std::collections::HashSet<", "std::collections::BTreeMap<", "std::collections::BTreeSet<")


def _strip_ref(t):
    t = t.strip()
    while t.startswith("&"):
        t = t[1:].lstrip()
        if t.startswith("mut "):
            t = t[4:]
        if t.startswith("'"):
            t = t.split(" ", 1)[1] if " " in t else t
    return t


def handed_over_iterables(c):
    """Generic arguments of a trait-method callee (other than Self) that are themselves a hash collection or one of its iterators:
    `String::extend(set)`, `Vec::from_iter(map)`, `a.chain(set)`, `iter.eq(set)` ... iterate it inside the callee, in hash order.
    Not reported when the receiver is itself an order-free collection (BTree*/Hash*)."""
    # the std APIs whose extra generic parameter is an `IntoIterator` they consume (for `collect`, `sum`, `unzip` ... the extra
    # parameter is the *result* type, not an iterable)
    consuming = {"std::iter::Extend": ("extend",), "std::iter::FromIterator": ("from_iter",),
                 "std::iter::Iterator": ("chain", "zip", "cmp", "partial_cmp", "eq", "ne", "lt", "le", "gt", "ge")}
    if c.get("name") not in consuming.get(c.get("trait") or "", ()):
        return []
    args = c.get("args", [])
    selfty = _strip_ref(c.get("self", "") or (args[0] if args else ""))
    if selfty.startswith(ORDER_FREE_SELF) or selfty.startswith(HASH_TOP):
        return []
    return [a for a in args[1:] if _strip_ref(a).startswith(HASH_TOP)]


def hash_order_sites(f):
    """Call sites in fn fact f whose callee is an order-exposing method of a hash collection."""
    out = []
    for nbody, body in enumerate([f["body"]] + f.get("promoted", [])):
        for bidx, bb in enumerate(body["blocks"]):
            bi = bidx if nbody == 0 else None
            t = bb["t"]
            if t["k"] != "call" or not t.get("callee"):
                continue
            c = t["callee"]
            name = c.get("name")
            args = " ".join(c.get("args", []))
            selfty = c.get("self", "") or c.get("impl_self", "") or ""
            res = (c.get("res") or {})
            hay = " ".join([c["path"], selfty, res.get("path", ""), res.get("impl_self", "") or ""])
            recv_hash = is_hash_type(hay) or (name == "into_iter" and is_hash_type(args))
            for a in handed_over_iterables(c):
                out.append({"callee": c["path"], "name": "%s(<hash iterable>)" % name, "line": t.get("line"), "self": a, "dty": t.get("dty"), "bb": None})
            if not recv_hash:
                continue
            if name in ORDER_EXPOSING or (name == "into_iter"):
                out.append({"callee": c["path"], "name": name, "line": t.get("line"), "self": selfty or args, "dty": t.get("dty"), "bb": bi})
    return out


def nondet_sites(f):
    out = []
    for body in [f["body"]] + f.get("promoted", []):
        for bb in body["blocks"]:
            t = bb["t"]
            if t["k"] != "call" or not t.get("callee"):
                continue
            c = t["callee"]
            p = (c.get("res") or {}).get("path") or c["path"]
            if any(p.startswith(n) or c["path"].startswith(n) for n in NONDET_CALLS):
                out.append({"callee": c["path"], "line": t.get("line")})
            if c["path"].startswith("rand::") or "RandomState" in c["path"] and c.get("name") == "new":
                out.append({"callee": c["path"], "line": t.get("line")})
    return out
