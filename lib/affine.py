"""Symbolic execution of one MIR path in an affine domain (linear expressions over named symbols).

Used for CVec's element operations: pointer arithmetic and length updates are compared, after normalisation, with Vec's
specification.  Fields of `*self` are versioned: a call that receives `&mut *self` (reserve) replaces `data`/`capacity` by fresh
symbols, so a pointer computed from a stale `data` cannot match the expected expression.
"""


class Aff:
    def __init__(self, terms=None, const=0):
        self.t = {k: v for k, v in (terms or {}).items() if v != 0}
        self.c = const

    @staticmethod
    def sym(name):
        return Aff({name: 1})

    @staticmethod
    def const(c):
        return Aff({}, c)

    def __add__(self, o):
        t = dict(self.t)
        for k, v in o.t.items():
            t[k] = t.get(k, 0) + v
        return Aff(t, self.c + o.c)

    def __sub__(self, o):
        t = dict(self.t)
        for k, v in o.t.items():
            t[k] = t.get(k, 0) - v
        return Aff(t, self.c - o.c)

    def __eq__(self, o):
        return isinstance(o, Aff) and self.t == o.t and self.c == o.c

    def __hash__(self):
        return hash((tuple(sorted(self.t.items())), self.c))

    def __repr__(self):
        parts = []
        for k, v in sorted(self.t.items()):
            parts.append(("%s" % k) if v == 1 else ("-%s" % k if v == -1 else "%d*%s" % (v, k)))
        if self.c or not parts:
            parts.append(str(self.c))
        return " + ".join(parts).replace("+ -", "- ")


def _norm_sign(a):
    """eq0/ne0 are sign-insensitive: make the first coefficient (symbols in sorted order, then the constant) positive."""
    for k in sorted(a.t):
        if a.t[k] < 0:
            return Aff({x: -v for x, v in a.t.items()}, -a.c)
        break
    else:
        if a.c < 0:
            return Aff({}, -a.c)
    return a


def canon_guard(g, unsigned=()):
    """Canonical form of a comparison guard (op, lhs, rhs, truth) over Aff operands: ('ge0', e) | ('eq0', e) | ('ne0', e) | None.
    `a <= b`, `!(a > b)`, `b >= a`, `!(b < a)` all become ge0(b - a); strict forms subtract one (integers).  For a single unsigned symbol x:
    x <= 0 is x == 0 and x >= 1 is x != 0."""
    if len(g) != 4 or not isinstance(g[1], Aff) or not isinstance(g[2], Aff):
        return None
    op, a, b, truth = g
    one = Aff.const(1)
    table = {("Le", True): ("ge0", b - a), ("Le", False): ("ge0", a - b - one), ("Lt", True): ("ge0", b - a - one), ("Lt", False): ("ge0", a - b),
             ("Gt", True): ("ge0", a - b - one), ("Gt", False): ("ge0", b - a), ("Ge", True): ("ge0", a - b), ("Ge", False): ("ge0", b - a - one),
             ("Eq", True): ("eq0", a - b), ("Eq", False): ("ne0", a - b), ("Ne", True): ("ne0", a - b), ("Ne", False): ("eq0", a - b)}
    r = table.get((op, truth))
    if r is None:
        return None
    kind, e = r
    if kind == "ge0" and len(e.t) == 1:
        (x, k), = e.t.items()
        if x in unsigned and k == -1 and e.c == 0:
            kind, e = "eq0", Aff.sym(x)
        elif x in unsigned and k == 1 and e.c == -1:
            kind, e = "ne0", Aff.sym(x)
    if kind in ("eq0", "ne0"):
        e = _norm_sign(e)
    return (kind, e)


def canon_guards(guards, unsigned=()):
    return [c for c in (canon_guard(g, unsigned) for g in guards) if c is not None]


class Opaque:
    def __init__(self, what):
        self.what = what

    def __repr__(self):
        return "<%s>" % (self.what,)

    def __eq__(self, o):
        return isinstance(o, Opaque) and self.what == o.what

    def __hash__(self):
        return hash(self.what)


class PathExec:
    """Execute the blocks of `path` in order.  self_local = local holding `&mut self`/`&self`."""

    def __init__(self, body, path, self_fields, arg_syms, self_local=1):
        self.body = body
        self.path = path
        self.env = {}
        self.fields = {k: Aff.sym(k + "0") for k in self_fields}
        self.version = 0
        self.self_local = self_local
        self.events = []          # (kind, args...) in order
        self.guards = []          # (op, lhs, rhs, truth)
        self.ok = True
        self.notes = []
        for l, name in arg_syms.items():
            self.env[l] = Aff.sym(name)
        self.aliases = {self_local}

    # -- values ------------------------------------------------------------------------------------
    def place(self, p):
        l = p["l"]
        proj = p["p"]
        if l in self.aliases and len(proj) >= 2 and proj[0][0] == "d" and proj[1][0] == "f" and proj[1][2] in self.fields and len(proj) == 2:
            return self.fields[proj[1][2]]
        if l in self.aliases and len(proj) == 1 and proj[0][0] == "d":
            return Opaque("*self")
        v = self.env.get(l, Opaque("_%d" % l))
        for e in proj:
            if e[0] == "f" and isinstance(v, tuple):
                idx = e[1]
                v = v[idx] if idx < len(v) else Opaque("field")
            elif e[0] == "f" and isinstance(v, Opaque):
                v = Opaque("%s.%s" % (v.what, e[2]))
            elif e[0] == "d":
                v = v if not isinstance(v, Opaque) else Opaque("*" + str(v.what))
            else:
                v = Opaque("proj")
        return v

    def operand(self, o):
        if "c" in o:
            return self.place(o["c"])
        if "m" in o:
            return self.place(o["m"])
        if "k" in o:
            c = o["k"]
            if "int" in c:
                return Aff.const(int(c["int"]))
            return Opaque("const:" + c.get("ty", ""))
        return Opaque("?")

    def rvalue(self, r):
        k = r["k"]
        if k == "use":
            return self.operand(r["o"])
        if k == "cast" and r["ck"] in ("PtrToPtr", "IntToInt"):
            return self.operand(r["o"])
        if k == "bin":
            a, b = self.operand(r["a"]), self.operand(r["b"])
            op = r["op"]
            if isinstance(a, Aff) and isinstance(b, Aff):
                if op in ("Add", "AddUnchecked", "Offset"):
                    return a + b
                if op in ("Sub", "SubUnchecked"):
                    return a - b
                if op == "AddWithOverflow":
                    return (a + b, Opaque("ovf"))
                if op == "SubWithOverflow":
                    return (a - b, Opaque("ovf"))
                if op in ("Le", "Lt", "Ge", "Gt", "Eq", "Ne"):
                    return ("cmp", op, a, b)
            return Opaque("bin:" + op)
        if k == "ref" or k == "rawptr":
            p = r["p"]
            if p["l"] in self.aliases and len(p["p"]) == 1 and p["p"][0][0] == "d":
                return ("selfref",)
            return Opaque("ref")
        if k == "agg":
            return tuple(self.operand(o) for o in r["ops"]) if r["ak"] == "tuple" else ("agg", r.get("adt"), r.get("variant"), tuple(self.operand(o) for o in r["ops"]))
        return Opaque(k)

    # -- execution ---------------------------------------------------------------------------------------
    def run(self, on_call):
        for idx, b in enumerate(self.path):
            bb = self.body.blocks[b]
            for s in bb["s"]:
                if s["k"] != "assign":
                    continue
                v = self.rvalue(s["r"])
                p = s["p"]
                if p["l"] in self.aliases and len(p["p"]) == 2 and p["p"][0][0] == "d" and p["p"][1][0] == "f" and p["p"][1][2] in self.fields:
                    self.fields[p["p"][1][2]] = v
                    self.events.append(("set", p["p"][1][2], v))
                elif not p["p"]:
                    if v == ("selfref",):
                        self.aliases.add(p["l"])
                    self.env[p["l"]] = v
            t = bb["t"]
            nxt = self.path[idx + 1] if idx + 1 < len(self.path) else None
            if t["k"] == "switch":
                v = self.operand(t["o"])
                tg = {int(x): y for x, y in t["targets"]}
                taken = [val for val, dest in tg.items() if dest == nxt]
                truth = None
                if nxt == t["otherwise"] and nxt not in tg.values():
                    truth = "otherwise"
                if isinstance(v, tuple) and v and v[0] == "cmp":
                    if taken == [0]:
                        self.guards.append((v[1], v[2], v[3], False))
                    else:
                        self.guards.append((v[1], v[2], v[3], True))
                else:
                    self.guards.append(("switch", v, taken, truth))
            elif t["k"] == "assert":
                pass
            elif t["k"] == "call":
                args = [self.operand(a) for a in t["args"]]
                res = on_call(self, t, args)
                if not t["d"]["p"]:
                    self.env[t["d"]["l"]] = res
        return self

    def bump_self(self, fields):
        """A callee received `&mut *self`: the given fields may have been replaced."""
        self.version += 1
        for f in fields:
            self.fields[f] = Aff.sym("%s%d" % (f, self.version))
