"""Flow-insensitive taint propagation over the locals of one MIR body (labels are arbitrary strings)."""
from . import mir


def _locals_in_operand(op):
    if "c" in op:
        return [op["c"]["l"]] + [e[1] for e in op["c"]["p"] if e[0] == "i"]
    if "m" in op:
        return [op["m"]["l"]] + [e[1] for e in op["m"]["p"] if e[0] == "i"]
    return []


def _locals_in_rvalue(r):
    k = r["k"]
    out = []
    if k in ("use", "cast", "un", "repeat"):
        out += _locals_in_operand(r["o"])
    elif k in ("ref", "rawptr", "discr"):
        out.append(r["p"]["l"])
    elif k == "bin":
        out += _locals_in_operand(r["a"]) + _locals_in_operand(r["b"])
    elif k == "agg":
        for o in r["ops"]:
            out += _locals_in_operand(o)
    return out


def propagate(body, seeds, fixed=()):
    """seeds: {local: {labels}}.  Returns {local: set(labels)} at fixpoint.  Locals in `fixed` keep exactly their seed labels (a slice
    cut at a known position is *only* the part before/after it, whatever the labels of the vector it was cut from).

    Assignments and call results inherit the labels of everything they mention; a call also taints every local whose
    reference (or the local itself, by place) is passed to it with the labels of the other arguments (methods such as
    Vec::push / Command::args mutate their receiver)."""
    taint = {i: set(s) for i, s in seeds.items()}
    ref_of = {}
    live = body.live_blocks()
    for i in live:
        for s in body.blocks[i]["s"]:
            if s["k"] == "assign" and not s["p"]["p"] and s["r"]["k"] in ("ref", "rawptr"):
                ref_of.setdefault(s["p"]["l"], set()).add(s["r"]["p"]["l"])
    # reborrows: _a = &mut *_b where _b is itself a ref
    changed = True
    while changed:
        changed = False
        for a, bs in list(ref_of.items()):
            for b in list(bs):
                for c in ref_of.get(b, ()):
                    if c not in bs:
                        bs.add(c)
                        changed = True
    changed = True
    while changed:
        changed = False

        def add(l, labels):
            nonlocal changed
            if not labels or l in fixed:
                return
            cur = taint.setdefault(l, set())
            if not labels <= cur:
                cur |= labels
                changed = True

        for i in live:
            bb = body.blocks[i]
            for s in bb["s"]:
                if s["k"] != "assign":
                    continue
                labels = set()
                for l in _locals_in_rvalue(s["r"]):
                    labels |= taint.get(l, set())
                add(s["p"]["l"], labels)
            t = bb["t"]
            if t["k"] == "call":
                arg_locals = []
                for a in t["args"]:
                    arg_locals += _locals_in_operand(a)
                if "f" in t and ("c" in t["f"] or "m" in t["f"]):
                    arg_locals += _locals_in_operand(t["f"])
                labels = set()
                for l in arg_locals:
                    labels |= taint.get(l, set())
                # a predicate's verdict (`args.iter().any(..)`, `==`) says something *about* the labelled values, it is not one of them
                if t.get("dty") != "bool":
                    add(t["d"]["l"], labels)
                for l in arg_locals:
                    for target in ref_of.get(l, ()):
                        add(target, labels)
    return taint


def operand_taint(body, taint, op):
    out = set()
    for l in _locals_in_operand(op):
        out |= taint.get(l, set())
    return out
