"""Obligation bookkeeping, known findings, evidence files and the VIOLATION/KNOWN-FINDING output contract."""
import json, os, sys, time

VERIF = os.path.dirname(os.path.dirname(os.path.abspath(__file__)))
KNOWN = os.path.join(VERIF, "known_findings.txt")
# evidence is written to /verif/evidence unless a selftest run redirects it (mutant runs must not clobber real evidence)
EVID = os.environ.get("CGV_EVIDENCE_DIR") or os.path.join(VERIF, "evidence")


def load_known():
    findings = {}
    fixed = []
    if os.path.exists(KNOWN):
        for line in open(KNOWN):
            line = line.strip()
            if not line or line.startswith("#"):
                continue
            if line.startswith("finding:"):
                rest = line[len("finding:"):].strip()
                parts = rest.split(None, 2)
                pid = parts[0].split("=", 1)[1]
                key = parts[1].split("=", 1)[1]
                desc = parts[2] if len(parts) > 2 else ""
                findings[(pid, key)] = desc
            elif line.startswith("fixed:"):
                fixed.append(line)
    return findings, fixed


class Check:
    def __init__(self, pid, tier, level="other"):
        self.pid = pid
        self.tier = tier
        self.level = level
        self.t0 = time.time()
        self.seed = int(os.environ.get("VERIF_SEED", "0") or 0)
        self.obligations = 0
        self.discharged = 0
        self.viol = []      # (key, message, detail)
        self.samples = []
        self.units = []
        self.rules = {}     # rule -> [n_obligations, n_ok]
        self.assumptions = []
        self.extra = {}
        self.notes = []
        self.broken = []    # checker-integrity failures (missing anchors, floors)

    # --- recording ---
    def unit(self, name):
        if name not in self.units:
            self.units.append(name)

    def ob(self, rule, key, ok, msg="", detail=None, sample=None):
        """One obligation of `rule`, identified by key (no line numbers)."""
        self.obligations += 1
        r = self.rules.setdefault(rule, [0, 0])
        r[0] += 1
        if ok:
            self.discharged += 1
            r[1] += 1
            if sample is not None and len([s for s in self.samples if s.get("rule") == rule]) < 3:
                self.samples.append({"rule": rule, "instance": key, "ok": True, "what": sample})
        else:
            self.viol.append((rule + "/" + key, msg, detail))
        return ok

    def violation(self, rule, key, msg, detail=None):
        self.ob(rule, key, False, msg, detail)

    def floor(self, what, count, minimum):
        """Fail closed when the analysis saw fewer instances than were confirmed by hand."""
        if count < minimum:
            self.broken.append("floor: %s: saw %d, expected at least %d" % (what, count, minimum))
        self.extra.setdefault("floors", {})[what] = {"seen": count, "floor": minimum}

    def require(self, cond, what):
        if not cond:
            self.broken.append("anchor missing: " + what)
        return cond

    def note(self, s):
        self.notes.append(s)

    # --- finishing ---
    def finish(self, explanation, rule_text=None, trusted=None, exhaustive=None, checker_cmd=None):
        known, fixed = load_known()
        new = []
        known_hit = []
        seen = set()
        for key, msg, detail in self.viol:
            if key in seen:
                continue
            seen.add(key)
            if (self.pid, key) in known:
                known_hit.append((key, msg))
            else:
                new.append((key, msg, detail))
        os.makedirs(os.path.join(EVID, "violations"), exist_ok=True)
        for key, msg in known_hit:
            print("KNOWN-FINDING: property=%s %s -- %s" % (self.pid, key, msg))
        rc = 0
        for i, (key, msg, detail) in enumerate(new):
            path = os.path.join(EVID, "violations", "%s-%d.json" % (self.pid, i))
            with open(path, "w") as fh:
                json.dump({"property": self.pid, "key": key, "message": msg, "detail": detail}, fh, indent=1, default=str)
            print("%s: %s" % (key, msg))
            print("VIOLATION property=%s replay=%s" % (self.pid, path))
            rc = 1
        for b in self.broken:
            print("CHECK-BROKEN property=%s %s" % (self.pid, b))
            # floors/anchors guard against a *silent* pass; when violations were found they are the verdict
            if rc == 0:
                rc = 2
        cov = {
            "explanation": explanation,
            "obligations": self.obligations,
            "discharged": self.discharged,
            "rules": {k: {"instances": v[0], "ok": v[1]} for k, v in sorted(self.rules.items())},
            "units_analysed": self.units,
            "samples": self.samples[:12] or [{"note": "no instance sample recorded"}],
            "known_findings_matched": [k for k, _ in known_hit],
            "checker_cmd": checker_cmd or "./cgv %s %s" % (self.pid, self.tier),
            "trusted_base": trusted or ["rustc nightly 1.97 (type checker, MIR construction at mir-opt-level 0)", "cgv-driver MIR->JSON printing"],
        }
        if self.level == "proof":
            # discharged counts known findings as not discharged; they are listed separately
            pass
        if rule_text:
            cov["rule"] = rule_text
        if exhaustive is not None:
            cov["exhaustive"] = exhaustive
        cov["evaluations"] = self.obligations
        cov["distinct_nontrivial"] = len({k for k in self.rules}) if False else self.obligations
        cov.update(self.extra)
        if self.notes:
            cov["notes"] = self.notes
        level = self.level
        if level == "proof" and self.discharged != self.obligations:
            # a proof-level evidence file must have discharged == obligations; with open findings
            # the run is reported at level "other" with the same numbers.
            level = "other"
        ev = {
            "property_id": self.pid,
            "tier": self.tier,
            "seed": self.seed,
            "level": level,
            "coverage": cov,
            "assumptions": self.assumptions,
            "wall_s": round(time.time() - self.t0, 2),
            "violations": len(new),
        }
        with open(os.path.join(EVID, "%s.json" % self.pid), "w") as fh:
            json.dump(ev, fh, indent=1, default=str)
        print("%s %s: %d obligations, %d discharged, %d known findings, %d new violations, %.1fs"
              % (self.pid, self.tier, self.obligations, self.discharged, len(known_hit), len(new), time.time() - self.t0))
        return rc


class Only:
    """View of a Check that records only the obligations of the named rules (prefix match): lets one property's check run the part of a
    sibling's rule set that its own statement includes.  Anchors and floors stay fail-closed."""
    def __init__(self, ck, prefixes):
        self._ck, self._pre = ck, tuple(prefixes)
        self.extra, self.tier, self.pid = ck.extra, ck.tier, ck.pid

    def _mine(self, rule):
        return rule.startswith(self._pre)

    def unit(self, name):
        self._ck.unit(name)

    def ob(self, rule, key, ok, msg="", detail=None, sample=None):
        if self._mine(rule):
            return self._ck.ob(rule, key, ok, msg, detail, sample)
        return ok

    def violation(self, rule, key, msg, detail=None):
        if self._mine(rule):
            self._ck.violation(rule, key, msg, detail)

    def floor(self, what, count, minimum):
        self._ck.floor(what, count, minimum)

    def require(self, cond, what):
        return self._ck.require(cond, what)

    def note(self, s):
        self._ck.note(s)
