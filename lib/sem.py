"""Path-sensitive evaluation of small MIR functions over symbolic inputs ("case summaries").

The shape rules of the first build compared one spelling of a behaviour (a `match` with two arms, a call to `is_some`, a helper called
directly).  This evaluator replaces spelling by meaning for the small conversion functions of cglue: it walks every acyclic path of a
function's MIR, keeps the value of every local *on that path* (no merging at joins), splits a symbolic enum into its variants when its
discriminant is tested, evaluates `Option`/`Result` combinators through models, and steps into crate-local callees and closures.  The
result is a list of outcomes: the conditions on the inputs that select the path, the ordered list of calls it could not see into
(effects), and the returned value as a term over the inputs.  Rules are then stated on outcomes, e.g. "for Err(e) the result is
get(into_int_err(e)) and nothing touches ok_out".

It is an abstract interpreter over a term domain, not an execution: inputs stay symbolic, unknown calls stay opaque terms, loops are
not unrolled (an outcome of kind 'stuck' is reported and the rule that needed it stays undecided -> violation, fail closed).

Values (immutable tuples):
  ('sym', name)                       symbolic input
  ('const', v)                        integer / bool / char constant
  ('unit',)                           zero-sized constant
  ('agg', kind, adt, variant, fields) kind in adt|tuple|array|closure ; fields = tuple of values
  ('ref', root, projs)                reference / raw pointer to a place; root = ('loc', frame, local) | ('ext', term)
  ('fn', path, res_path, targs)       function item
  ('opq', id, desc)                   result of an opaque call / operation; desc = ('call', path, args) | ('bin', op, a, b) | ...
  ('pay', base, variant, idx)         payload field idx of symbolic enum `base` known to be `variant`
  ('fld', base, idx, name)            field of a symbolic struct
  ('nz', v)                           NonZero wrapper around v (v known non-zero)
  ('cast', kind, v)                   pointer cast / transmute of v (kept so identity is visible through `strip`)
"""
from . import mir

STD_ENUMS = {
    "std::option::Option": ["None", "Some"], "core::option::Option": ["None", "Some"],
    "std::result::Result": ["Ok", "Err"], "core::result::Result": ["Ok", "Err"],
    "std::ops::ControlFlow": ["Continue", "Break"], "core::ops::ControlFlow": ["Continue", "Break"],
}
MAX_OUTCOMES = 400
MAX_DEPTH = 8


class Stuck(Exception):
    pass


class State:
    __slots__ = ("frames", "over", "effects", "conds", "refined")

    def __init__(self):
        self.frames = {}
        self.over = {}
        self.effects = []
        self.conds = []
        self.refined = {}      # symbolic term -> ('agg', ...) once its variant is known on this path

    def over_touches(self, term):
        """Was anything written (by assignment, not by an opaque call) into the cell a symbolic pointer designates?"""
        return any(k[0] == ("ext", term) for k in self.over)

    def copy(self):
        s = State()
        s.frames = {k: dict(v) for k, v in self.frames.items()}
        s.over = dict(self.over)
        s.effects = list(self.effects)
        s.conds = list(self.conds)
        s.refined = dict(self.refined)
        return s


def mkref(root, projs):
    """A reference to a place.  The pointee of a symbolic pointer p is the cell ('ext', p); a reference to that whole cell is p itself,
    so `&*p` and p are one value."""
    projs = tuple(projs)
    if root[0] == "ext" and not projs and isinstance(root[1], tuple):
        return root[1]
    return ("ref", root, projs)


def strip(v):
    """Look through pointer casts / transmutes."""
    while isinstance(v, tuple) and v and v[0] == "cast":
        v = v[2]
    return v


def walk(v):
    yield v
    if isinstance(v, tuple):
        kids = v[1:] if v and isinstance(v[0], str) else v
        for x in kids:
            if isinstance(x, tuple):
                yield from walk(x)


def contains(v, pred):
    return any(pred(x) for x in walk(v) if isinstance(x, tuple) and x and isinstance(x[0], str))


def variant_of(v):
    v = strip(v)
    if isinstance(v, tuple) and v and v[0] == "agg" and v[1] == "adt":
        return v[3]
    return None


def fmt(v, depth=0):
    if not isinstance(v, tuple) or not v:
        return str(v)
    if depth > 6:
        return "…"
    k = v[0]
    if k == "sym":
        return v[1]
    if k == "const":
        return str(v[1])
    if k == "unit":
        return "()"
    if k == "agg":
        name = (v[3] or v[2] or v[1]) if v[1] == "adt" else v[1]
        return "%s(%s)" % (name, ", ".join(fmt(x, depth + 1) for x in v[4]))
    if k == "ref":
        return "&%s%s" % (fmt(v[1][1], depth + 1) if v[1][0] == "ext" else "_%s" % (v[1][2],), "".join("." + str(p[-1]) for p in v[2]))
    if k == "opq":
        d = v[2]
        if d[0] == "call":
            return "%s(%s)" % (d[1].split("::")[-1] if "::" in d[1] else d[1], ", ".join(fmt(x, depth + 1) for x in d[2]))
        return "%s(%s)" % (d[0], ", ".join(fmt(x, depth + 1) if isinstance(x, tuple) else str(x) for x in d[1:]))
    if k == "pay":
        return "%s as %s.%d" % (fmt(v[1], depth + 1), v[2], v[3])
    if k == "fld":
        return "%s.%s" % (fmt(v[1], depth + 1), v[3])
    if k == "nz":
        return "nz(%s)" % fmt(v[1], depth + 1)
    if k == "cast":
        return fmt(v[2], depth)
    if k == "fn":
        return "fn:" + v[1]
    return "%s(%s)" % (k, ", ".join(fmt(x, depth + 1) if isinstance(x, tuple) else str(x) for x in v[1:]))


class Outcome:
    def __init__(self, kind, st, ret=None, why=None):
        self.kind, self.conds, self.effects, self.ret, self.why, self.state = kind, list(st.conds), list(st.effects), ret, why, st

    def calls(self, suffix=None):
        return [e for e in self.effects if e[0] == "call" and (suffix is None or e[1].endswith(suffix))]

    def __repr__(self):
        return "<%s if %s do %s -> %s>" % (self.kind, [(fmt(c[1]), c[0], c[2]) for c in self.conds], [fmt(("opq", 0, e)) for e in self.effects if e[0] == "call"],
                                            fmt(self.ret) if self.ret is not None else self.why)


class Evaluator:
    def __init__(self, fns, adts=None, inline=None, models=None, max_depth=MAX_DEPTH):
        """fns: {path: fn fact}; adts: {path: adt fact}; inline: predicate(path) -> may step into this crate-local function."""
        self.fns = fns
        self.adts = adts or {}
        self.inline = inline or (lambda p: True)
        self.models = dict(MODELS)
        if models:
            self.models.update(models)
        self.max_depth = max_depth
        self.nonnull = set()      # symbolic inputs that are references (never null)
        self._id = 0
        self._nout = 0

    # ------------------------------------------------------------------------------------------------ public
    def run(self, fn, args, init=None):
        """args: list of values for parameters 1..n; init: [(root, projs, value)] written before the run (contents of places that
        reference arguments point to).  Returns list of Outcome."""
        st = State()
        for root, projs, val in (init or []):
            self._write(st, root, tuple(projs), val)
        self._nout = 0
        outs = []
        try:
            for kind, st2, val in self._exec_fn(st, fn, list(args), 0):
                outs.append(Outcome(kind, st2, ret=val if kind == "ret" else None, why=val if kind != "ret" else None))
        except Stuck as e:
            s = State()
            outs.append(Outcome("stuck", s, why=str(e)))
        return outs

    def fresh(self):
        self._id += 1
        return self._id

    def opaque(self, st, desc, effect=True):
        v = ("opq", self.fresh(), desc)
        if effect:
            st.effects.append(desc + (v[1],))
        return v

    # ------------------------------------------------------------------------------------------------ enums
    def variants_for(self, adt):
        if adt in STD_ENUMS:
            return [(n, i) for i, n in enumerate(STD_ENUMS[adt])]
        a = self.adts.get(adt)
        if a and a.get("kind") == "enum":
            return [(v["name"], int(v["discr"]) if v.get("discr") is not None else i) for i, v in enumerate(a["variants"])]
        return None

    @staticmethod
    def adt_of_type(ty):
        t = (ty or "").strip()
        while t.startswith("&"):
            t = t[1:].lstrip()
            if t.startswith("mut "):
                t = t[4:]
            if t.startswith("'"):
                t = t.split(" ", 1)[1] if " " in t else t
        return t.split("<")[0]

    # ------------------------------------------------------------------------------------------------ places
    def _canon(self, st, fid, place):
        """(root, projs, value-if-materialised)"""
        root = ("loc", fid, place["l"])
        projs = ()
        for e in place["p"]:
            if e[0] == "d":
                v = self._read(st, root, projs)
                v = strip(v)
                if isinstance(v, tuple) and v[0] == "ref":
                    root, projs = v[1], tuple(v[2])
                else:
                    root, projs = ("ext", v), ()
            elif e[0] == "f":
                projs = projs + (("f", int(e[1]), e[2]),)
            elif e[0] == "dc":
                projs = projs + (("dc", e[1], int(e[2])),)
            else:
                projs = projs + (("x",) + tuple(e),)
        return root, projs

    def _root_value(self, st, root):
        if root[0] == "loc":
            fr = st.frames.get(root[1], {})
            if root[2] not in fr:
                return ("uninit", root[1], root[2])
            return fr[root[2]]
        t = root[1]
        return st.refined.get(t, t) if isinstance(t, tuple) else t

    def _project(self, st, v, e):
        v0 = v
        v = strip(v)
        if isinstance(v, tuple) and v in st.refined:
            v = st.refined[v]
        if e[0] == "f":
            if isinstance(v, tuple) and v[0] == "agg" and e[1] < len(v[4]):
                return v[4][e[1]]
            if isinstance(v, tuple) and v[0] == "asv":
                return ("pay", v[1], v[2], e[1])
            if isinstance(v, tuple) and v[0] == "nz" and e[1] == 0:
                return v[1]
            return ("fld", v, e[1], e[2])
        if e[0] == "dc":
            if isinstance(v, tuple) and v[0] == "agg" and v[1] == "adt":
                return v
            return ("asv", v, e[1])
        return ("proj", v0, e)

    def _read(self, st, root, projs):
        key = (root, projs)
        if key in st.over:
            return st.over[key]
        # longest overlay prefix
        for n in range(len(projs) - 1, -1, -1):
            k2 = (root, projs[:n])
            if k2 in st.over:
                v = st.over[k2]
                for e in projs[n:]:
                    v = self._project(st, v, e)
                return v
        v = self._root_value(st, root)
        for e in projs:
            v = self._project(st, v, e)
        # overlays below this path: rebuild aggregate when possible
        subs = [(k, val) for k, val in st.over.items() if k[0] == root and len(k[1]) > len(projs) and k[1][:len(projs)] == projs]
        if subs:
            vv = strip(v)
            if isinstance(vv, tuple) and vv[0] == "agg":
                fields = list(vv[4])
                ok = True
                for (r, pp), val in subs:
                    rest = pp[len(projs):]
                    if len(rest) == 1 and rest[0][0] == "f" and rest[0][1] < len(fields):
                        fields[rest[0][1]] = val
                    else:
                        ok = False
                if ok:
                    return vv[:4] + (tuple(fields),)
            return ("upd", v, tuple(sorted(((pp[len(projs):], val) for (r, pp), val in subs), key=repr)))
        return v

    def read_place(self, st, fid, place):
        root, projs = self._canon(st, fid, place)
        return self._read(st, root, projs)

    def write_place(self, st, fid, place, val):
        root, projs = self._canon(st, fid, place)
        self._write(st, root, projs, val)

    def _write(self, st, root, projs, val):
        if root[0] == "loc" and not projs:
            st.frames.setdefault(root[1], {})[root[2]] = val
            for k in [k for k in st.over if k[0] == root]:
                del st.over[k]
            return
        for k in [k for k in st.over if k[0] == root and len(k[1]) > len(projs) and k[1][:len(projs)] == projs]:
            del st.over[k]
        st.over[(root, projs)] = val

    def operand(self, st, fid, o):
        if "c" in o:
            return self.read_place(st, fid, o["c"])
        if "m" in o:
            return self.read_place(st, fid, o["m"])
        if "k" in o:
            c = o["k"]
            if "fn" in c:
                f = c["fn"]
                return ("fn", f["path"], (f.get("res") or {}).get("path"), tuple(f.get("args", [])))
            if "int" in c:
                return ("const", int(c["int"]))
            if "str" in c:
                return ("const", c["str"])
            if c.get("zst"):
                return ("unit",)
            if c.get("promoted") is not None and getattr(self, "_cur_fn", None) is not None:
                v = self._promoted(st, self._cur_fn, int(c["promoted"]))
                if v is not None:
                    return v
            return ("constv", c.get("v") or c.get("uneval"), c.get("ty"))
        return ("unknown",)

    def _promoted(self, st, fn, idx):
        """Value of a promoted constant (`&VARIANT`, `&[..]`): its tiny body is evaluated in place (straight-line, no calls)."""
        ps = fn.get("promoted", [])
        if idx >= len(ps):
            return None
        pb = ps[idx]
        fid = self.fresh()
        st.frames[fid] = {}
        bb = 0
        for _ in range(50):
            blk = pb["blocks"][bb]
            for s_ in blk["s"]:
                if s_["k"] == "assign":
                    self.write_place(st, fid, s_["p"], self.rvalue(st, fid, s_["r"]))
            t = blk["t"]
            if t["k"] == "return":
                return st.frames[fid].get(0)
            if t["k"] == "goto":
                bb = t["t"]
                continue
            return None
        return None

    # ------------------------------------------------------------------------------------------------ rvalues
    def rvalue(self, st, fid, r):
        k = r["k"]
        if k == "use":
            return self.operand(st, fid, r["o"])
        if k in ("ref", "rawptr"):
            root, projs = self._canon(st, fid, r["p"])
            return mkref(root, projs)
        if k == "cast":
            v = self.operand(st, fid, r["o"])
            ck = r["ck"]
            if ck.startswith("IntToInt"):
                return v
            if ck.startswith("PointerCoercion(ReifyFnPointer") or ck.startswith("PointerCoercion(ClosureFnPointer"):
                return v
            return ("cast", ck, v)
        if k == "bin":
            a, b = self.operand(st, fid, r["a"]), self.operand(st, fid, r["b"])
            return self.binop(st, r["op"], a, b)
        if k == "un":
            v = self.operand(st, fid, r["o"])
            if r["op"] == "Not" and isinstance(v, tuple) and v[0] == "const":
                return ("const", 0 if v[1] else 1)
            if r["op"] == "Not" and isinstance(v, tuple) and v[0] == "opq" and v[2][0] == "not":
                return v[2][1]
            return ("opq", self.fresh(), ("not", v))
        if k == "discr":
            v = strip(self.read_place(st, fid, r["p"]))
            if v in st.refined:
                v = st.refined[v]
            d = self.discr_of(v)
            return d if d is not None else ("discr", v)
        if k == "agg":
            ops = tuple(self.operand(st, fid, o) for o in r["ops"])
            if r["ak"] == "adt":
                return ("agg", "adt", r["adt"], r["variant"], ops)
            if r["ak"] == "closure":
                return ("agg", "closure", r["closure"], "", ops)
            return ("agg", r["ak"], "", "", ops)
        if k == "repeat":
            return ("repeat", self.operand(st, fid, r["o"]))
        return ("unknown", k)

    def discr_of(self, v):
        if isinstance(v, tuple) and v[0] == "agg" and v[1] == "adt":
            vs = self.variants_for(v[2])
            if vs:
                for n, d in vs:
                    if n == v[3]:
                        return ("const", d)
        return None

    def binop(self, st, op, a, b):
        sa, sb = strip(a), strip(b)
        if sa[0] == "const" and sb[0] == "const" and isinstance(sa[1], int) and isinstance(sb[1], int):
            x, y = sa[1], sb[1]
            table = {"Eq": x == y, "Ne": x != y, "Lt": x < y, "Le": x <= y, "Gt": x > y, "Ge": x >= y}
            if op in table:
                return ("const", 1 if table[op] else 0)
            arith = {"Add": x + y, "Sub": x - y, "Mul": x * y, "BitAnd": x & y, "BitOr": x | y, "BitXor": x ^ y,
                     "AddUnchecked": x + y, "SubUnchecked": x - y}
            if op in arith:
                return ("const", arith[op])
            if op in ("AddWithOverflow", "SubWithOverflow", "MulWithOverflow"):
                v = {"AddWithOverflow": x + y, "SubWithOverflow": x - y, "MulWithOverflow": x * y}[op]
                return ("agg", "tuple", "", "", (("const", v), ("const", 0)))
        if op in ("AddWithOverflow", "SubWithOverflow", "MulWithOverflow"):
            return ("agg", "tuple", "", "", (("opq", self.fresh(), ("bin", op[:3], a, b)), ("const", 0)))
        if op in ("Eq", "Ne") and sa == sb and sa[0] != "opq":
            return ("const", 1 if op == "Eq" else 0)
        return ("opq", self.fresh(), ("bin", op, a, b))

    # ------------------------------------------------------------------------------------------------ control
    def _exec_fn(self, st, fn, args, depth):
        if depth > self.max_depth:
            raise Stuck("call depth")
        body = mir.Body(fn)
        fid = self.fresh()
        fr = {}
        # closures: MIR arg 1 is the closure environment, 2.. the call arguments (already untupled by the caller)
        for i, a in enumerate(args):
            fr[i + 1] = a
        st.frames[fid] = fr
        yield from self._run(st, fn, body, fid, 0, frozenset(), depth)

    def _run(self, st, fn, body, fid, bb, seen, depth):
        while True:
            if bb in seen:
                yield ("stuck", st, "loop through bb%d of %s" % (bb, fn["path"]))
                return
            seen = seen | {bb}
            blk = body.blocks[bb]
            self._cur_fn = fn
            for s in blk["s"]:
                if s["k"] == "assign":
                    self.write_place(st, fid, s["p"], self.rvalue(st, fid, s["r"]))
                elif s["k"] == "setdiscr":
                    pass
                elif s["k"] == "intrinsic":
                    st.effects.append(("intrinsic", s.get("dbg", ""), self.fresh()))
            t = blk["t"]
            k = t["k"]
            self._cur_fn = fn
            if k == "return":
                self._nout += 1
                if self._nout > MAX_OUTCOMES:
                    raise Stuck("too many paths")
                v = st.frames[fid].get(0, ("unit",))
                yield ("ret", st, self._resolve_value(st, v))
                return
            if k == "goto":
                bb = t["t"]
                continue
            if k == "assert":
                bb = t["t"]
                continue
            if k == "drop":
                v = self.read_place(st, fid, t["p"])
                st.effects.append(("drop", v, t.get("ty", ""), self.fresh()))
                bb = t["t"]
                continue
            if k == "unreachable":
                yield ("stuck", st, "unreachable")
                return
            if k == "switch":
                forks = self._switch(st, fid, t)
                for st2, target in forks:
                    yield from self._run(st2, fn, body, fid, target, seen, depth)
                return
            if k == "call":
                for kind, st2, val in self._call(st, fid, t, depth):
                    if kind != "ret":
                        yield (kind, st2, val)
                        continue
                    if t["t"] is None:
                        yield ("panic", st2, "diverging call")
                        continue
                    self.write_place(st2, fid, t["d"], val)
                    yield from self._run(st2, fn, body, fid, t["t"], seen, depth)
                return
            yield ("stuck", st, "terminator " + k)
            return

    def _resolve_value(self, st, v):
        """Returned aggregates may contain refined symbols; leave as is."""
        return v

    def _switch(self, st, fid, t):
        v = strip(self.operand(st, fid, t["o"]))
        targets = [(int(x), bb) for x, bb in t["targets"]]
        oth = t["otherwise"]
        if v[0] == "const" and isinstance(v[1], int):
            for x, bb in targets:
                if x == v[1]:
                    return [(st, bb)]
            return [(st, oth)]
        if v[0] == "discr":
            base = v[1]
            adt = None
            # the enum type: from a known refinement request -- we only know the discriminant values; find variants through the type of
            # the switch operand's source where possible
            vs = self._variants_of_term(st, base)
            out = []
            covered = set()
            for x, bb in targets:
                covered.add(x)
                st2 = st.copy()
                st2.conds.append(("discr", base, self._variant_name(vs, x)))
                self._refine(st2, base, vs, x)
                out.append((st2, bb))
            rest = [(n, d) for n, d in (vs or []) if d not in covered]
            if vs is None:
                st2 = st.copy()
                st2.conds.append(("discr-not", base, tuple(sorted(covered))))
                out.append((st2, oth))
            else:
                for n, d in rest:
                    st2 = st.copy()
                    st2.conds.append(("discr", base, n))
                    self._refine(st2, base, vs, d)
                    out.append((st2, oth))
            return out
        # boolean / integer condition on an opaque term; `a == c` / `a != c` are recorded as conditions on a itself, and a branch whose
        # condition contradicts what the path already knows is pruned
        out = []
        covered = []
        is_bool = t.get("ty") == "bool"
        for x, bb in targets:
            st2 = st.copy()
            covered.append(x)
            if self.add_cond(st2, v, "eq", x, is_bool):
                out.append((st2, bb))
        st2 = st.copy()
        if is_bool and covered == [0]:
            ok = self.add_cond(st2, v, "eq", 1, True)
        else:
            ok = self.add_cond(st2, v, "ne", tuple(covered), is_bool)
        if ok:
            out.append((st2, oth))
        return out

    def add_cond(self, st, v, rel, val, is_bool=False):
        """Record `v rel val`; False when it contradicts a condition already on the path."""
        if is_bool and isinstance(v, tuple) and v[0] == "opq" and v[2][0] == "bin" and v[2][1] in ("Eq", "Ne") and rel == "eq":
            a, b = strip(v[2][2]), strip(v[2][3])
            if a[0] == "const" and b[0] != "const":
                a, b = b, a
            if b[0] == "const":
                truth = (val == 1) == (v[2][1] == "Eq")
                v, rel, val, is_bool = a, ("eq" if truth else "ne"), (b[1] if truth else (b[1],)), False
        if is_bool and isinstance(v, tuple) and v[0] == "opq" and v[2][0] == "not" and rel == "eq":
            return self.add_cond(st, strip(v[2][1]), "eq", 0 if val == 1 else 1, True)
        for (r2, v2, x2) in st.conds:
            if v2 != v:
                continue
            if rel == "eq" and r2 == "eq" and x2 != val:
                return False
            if rel == "eq" and r2 == "ne" and val in x2:
                return False
            if rel == "ne" and r2 == "eq" and x2 in val:
                return False
        st.conds.append((rel, v, val))
        return True

    def _variant_name(self, vs, d):
        for n, x in (vs or []):
            if x == d:
                return n
        return d

    def _variants_of_term(self, st, base):
        hint = getattr(self, "_type_hints", {}).get(base)
        if hint:
            return self.variants_for(hint)
        if isinstance(base, tuple) and base[0] == "opq" and base[2][0] in ("call", "icall"):
            rt = base[2][3] if len(base[2]) > 3 else None
            if rt:
                return self.variants_for(self.adt_of_type(rt))
        return None

    def _refine(self, st, base, vs, d):
        name = self._variant_name(vs, d)
        hint = getattr(self, "_type_hints", {}).get(base)
        adt = hint
        if adt is None and isinstance(base, tuple) and base[0] == "opq" and base[2][0] in ("call", "icall") and len(base[2]) > 3 and base[2][3]:
            adt = self.adt_of_type(base[2][3])
        if not isinstance(name, str):
            return
        nfields = 1
        a = self.adts.get(adt or "")
        if a:
            for v in a["variants"]:
                if v["name"] == name:
                    nfields = len(v["fields"])
        elif name in ("None",):
            nfields = 0
        st.refined[base] = ("agg", "adt", adt or "?", name, tuple(("pay", base, name, i) for i in range(nfields)))

    def hint(self, term, adt):
        """Declare the enum type of a symbolic input so that discriminant tests split it by variant."""
        if not hasattr(self, "_type_hints"):
            self._type_hints = {}
        self._type_hints[term] = adt

    # ------------------------------------------------------------------------------------------------ calls
    def _call(self, st, fid, t, depth):
        callee = t.get("callee")
        args = [self.operand(st, fid, a) for a in t["args"]]
        if callee is None:
            f = strip(self.operand(st, fid, t["f"]))
            if isinstance(f, tuple) and f[0] == "fn":
                yield from self._call_path(st, f[2] or f[1], f[1], args, t, depth, None)
                return
            args = [self._resolve_refs(st, a) for a in args]
            v = ("opq", self.fresh(), ("icall", f, tuple(args), t.get("dty")))
            st.effects.append(("icall", f, tuple(args), v[1]))
            yield ("ret", st, v)
            return
        res = (callee.get("res") or {}).get("path")
        if callee.get("via_from"):
            # `x.into()` through the blanket impl: the From impl it forwards to
            res = callee["via_from"]["path"]
        if res == "<T as std::convert::From<T>>::from" or (callee["path"] == "std::convert::Into::into" and res == "<T as std::convert::Into<U>>::into"
                                                           and len(callee.get("args", [])) == 2 and callee["args"][0] == callee["args"][1]):
            yield ("ret", st, args[0])
            return
        yield from self._call_path(st, res or callee["path"], callee["path"], args, t, depth, callee)

    def _call_path(self, st, path, decl_path, args, t, depth, callee):
        # closures / fn items called through Fn* traits
        if decl_path in ("std::ops::FnOnce::call_once", "std::ops::FnMut::call_mut", "std::ops::Fn::call") or path in (
                "std::ops::FnOnce::call_once", "std::ops::FnMut::call_mut", "std::ops::Fn::call"):
            f = strip(args[0])
            while isinstance(f, tuple) and f[0] == "ref":
                f = strip(self._read(st, f[1], tuple(f[2])))
            tup = strip(args[1]) if len(args) > 1 else ("agg", "tuple", "", "", ())
            cargs = list(tup[4]) if isinstance(tup, tuple) and tup[0] == "agg" else [tup]
            yield from self.apply(st, f, cargs, depth, t)
            return
        for key, model in self.models.items():
            if path == key or decl_path == key or path.endswith(key) or decl_path.endswith(key):
                yield from model(self, st, args, depth, t)
                return
        if decl_path == "std::cmp::PartialEq::ne" and callee is not None and path == decl_path:
            # the provided `ne` is `!eq`: use the type's own (derived or hand-written) eq when it is crate-local
            selfty = (callee.get("args") or [""])[0]
            eqfn = self.fns.get("<%s as std::cmp::PartialEq>::eq" % selfty)
            if eqfn is not None and self.inline(eqfn["path"]) and depth < self.max_depth:
                for kind, st2, v in self._exec_fn(st, eqfn, args, depth + 1):
                    if kind == "ret":
                        v = strip(v)
                        v = ("const", 0 if v[1] else 1) if v[0] == "const" else ("opq", self.fresh(), ("not", v))
                    yield (kind, st2, v)
                return
        fn = self.fns.get(path) or self.fns.get(decl_path)
        if fn is None and callee is not None and callee.get("trait") and not callee.get("res") and args:
            # a trait method on a type parameter of an inlined generic function: when the receiver is the unit value the impl for `()` is meant
            a0 = strip(args[0])
            if a0 == ("unit",) or (isinstance(a0, tuple) and a0[0] == "agg" and a0[1] == "tuple" and not a0[4]):
                fn = self.fns.get("<() as %s>::%s" % (callee["trait"], callee.get("name")))
        if fn is not None and self.inline(fn["path"]) and depth < self.max_depth:
            yield from self._exec_fn(st, fn, args, depth + 1)
            return
        dty = t.get("dty") if t else None
        # an opaque callee sees the current contents of local places it is handed by reference
        rargs = [self._resolve_refs(st, a) for a in args]
        v = ("opq", self.fresh(), ("call", path, tuple(rargs), dty))
        st.effects.append(("call", path, tuple(rargs), v[1]))
        hook = getattr(self, "on_opaque", None)
        if hook is not None:
            hook(self, st, path, args)       # e.g. re-version the fields a `&mut self` callee may replace
        yield ("ret", st, v)

    def _resolve_refs(self, st, v, depth=0):
        """References to local places are shown as ('&', current value): effects and opaque terms then mention what was passed."""
        v0 = v
        v = strip(v)
        if depth < 4 and isinstance(v, tuple) and v and v[0] == "ref" and v[1][0] == "loc":
            return ("&", self._resolve_refs(st, self._read(st, v[1], tuple(v[2])), depth + 1))
        return v0

    def apply(self, st, f, cargs, depth, t=None):
        """Call a function value (fn item, closure aggregate, enum-variant constructor) with already evaluated arguments."""
        f = strip(f)
        if isinstance(f, tuple) and f[0] == "agg" and f[1] == "closure":
            fn = self.fns.get(f[2])
            if fn is None:
                raise Stuck("closure body missing: " + f[2])
            # closure bodies take (env, args...) -- env by reference or by value depending on the Fn* kind
            body = mir.Body(fn)
            env_ty = body.locals[1]["ty"] if len(body.locals) > 1 else ""
            if env_ty.lstrip().startswith("&"):
                cell = ("ext", ("closure-env", self.fresh()))
                self._write(st, cell, (), f)
                env = mkref(cell, ())
            else:
                env = f
            yield from self._exec_fn(st, fn, [env] + list(cargs), depth + 1)
            return
        if isinstance(f, tuple) and f[0] == "fn":
            path = f[2] or f[1]
            # tuple-struct / enum-variant constructors used as functions: `Self::Ok`, `Some`
            ctor = self._ctor(f[1])
            if ctor:
                yield ("ret", st, ("agg", "adt", ctor[0], ctor[1], tuple(cargs)))
                return
            yield from self._call_path(st, path, f[1], list(cargs), t, depth, None)
            return
        cargs = [self._resolve_refs(st, a) for a in cargs]
        v = ("opq", self.fresh(), ("icall", f, tuple(cargs), None))
        st.effects.append(("icall", f, tuple(cargs), v[1]))
        yield ("ret", st, v)

    def _ctor(self, path):
        """`std::option::Option::Some` / `cglue::result::CResult::Ok` -> (adt, variant) when the path names an enum variant constructor."""
        if "::" not in path:
            return None
        adt, name = path.rsplit("::", 1)
        adt = adt.replace("::<T>", "").replace("::<T, E>", "")
        vs = self.variants_for(adt)
        if vs and any(n == name for n, _ in vs):
            return (adt, name)
        return None


# ---------------------------------------------------------------------------------------------------- models
def _as_variant(ev, st, v, adt_hint):
    """Split value v (an Option/Result-like enum) into [(st', variant name, payload list)]."""
    v0 = v
    v = strip(v)
    while isinstance(v, tuple) and v[0] == "ref":
        v = strip(ev._read(st, v[1], tuple(v[2])))
    if v in st.refined:
        v = st.refined[v]
    if isinstance(v, tuple) and v[0] == "agg" and v[1] == "adt":
        return [(st, v[3], list(v[4]))]
    vs = ev.variants_for(adt_hint)
    out = []
    for n, d in vs:
        st2 = st.copy()
        st2.conds.append(("discr", v, n))
        nf = 0 if n == "None" else 1
        st2.refined[v] = ("agg", "adt", adt_hint, n, tuple(("pay", v, n, i) for i in range(nf)))
        out.append((st2, n, [("pay", v, n, i) for i in range(nf)]))
    return out


def _opt(variant, *payload):
    return ("agg", "adt", "std::option::Option", variant, tuple(payload))


def _res(variant, *payload):
    return ("agg", "adt", "std::result::Result", variant, tuple(payload))


OPT, RES = "std::option::Option", "std::result::Result"


def m_option_map(ev, st, args, depth, t):
    for st2, n, pay in _as_variant(ev, st, args[0], OPT):
        if n == "None":
            yield ("ret", st2, _opt("None"))
        else:
            for kind, st3, v in ev.apply(st2, args[1], pay, depth, t):
                yield (kind, st3, _opt("Some", v) if kind == "ret" else v)


def m_option_map_or(ev, st, args, depth, t):
    for st2, n, pay in _as_variant(ev, st, args[0], OPT):
        if n == "None":
            yield ("ret", st2, args[1])
        else:
            yield from ev.apply(st2, args[2], pay, depth, t)


def m_option_map_or_else(ev, st, args, depth, t):
    for st2, n, pay in _as_variant(ev, st, args[0], OPT):
        if n == "None":
            yield from ev.apply(st2, args[1], [], depth, t)
        else:
            yield from ev.apply(st2, args[2], pay, depth, t)


def m_option_and_then(ev, st, args, depth, t):
    for st2, n, pay in _as_variant(ev, st, args[0], OPT):
        if n == "None":
            yield ("ret", st2, _opt("None"))
        else:
            yield from ev.apply(st2, args[1], pay, depth, t)


def m_option_filter(ev, st, args, depth, t):
    for st2, n, pay in _as_variant(ev, st, args[0], OPT):
        if n == "None":
            yield ("ret", st2, _opt("None"))
            continue
        # the predicate takes a reference to the payload
        cell = ("ext", ("filter-arg", ev.fresh()))
        ev._write(st2, cell, (), pay[0])
        for kind, st3, v in ev.apply(st2, args[1], [mkref(cell, ())], depth, t):
            if kind != "ret":
                yield (kind, st3, v)
                continue
            v = strip(v)
            if v[0] == "const":
                yield ("ret", st3, _opt("Some", pay[0]) if v[1] else _opt("None"))
                continue
            sa = st3.copy()
            if ev.add_cond(sa, v, "eq", 1, True):
                yield ("ret", sa, _opt("Some", pay[0]))
            sb = st3.copy()
            if ev.add_cond(sb, v, "eq", 0, True):
                yield ("ret", sb, _opt("None"))


def m_option_zip(ev, st, args, depth, t):
    for st2, n, pay in _as_variant(ev, st, args[0], OPT):
        for st3, n2, pay2 in _as_variant(ev, st2, args[1], OPT):
            if n == "Some" and n2 == "Some":
                yield ("ret", st3, _opt("Some", ("agg", "tuple", "", "", (pay[0], pay2[0]))))
            else:
                yield ("ret", st3, _opt("None"))


def m_option_and(ev, st, args, depth, t):
    for st2, n, pay in _as_variant(ev, st, args[0], OPT):
        yield ("ret", st2, args[1] if n == "Some" else _opt("None"))


def m_option_or(ev, st, args, depth, t):
    for st2, n, pay in _as_variant(ev, st, args[0], OPT):
        yield ("ret", st2, _opt("Some", pay[0]) if n == "Some" else args[1])


def m_bool_then_some(ev, st, args, depth, t):
    v = strip(args[0])
    if v[0] == "const":
        yield ("ret", st, _opt("Some", args[1]) if v[1] else _opt("None"))
        return
    sa = st.copy()
    if ev.add_cond(sa, v, "eq", 1, True):
        yield ("ret", sa, _opt("Some", args[1]))
    sb = st.copy()
    if ev.add_cond(sb, v, "eq", 0, True):
        yield ("ret", sb, _opt("None"))


def m_option_unwrap_or(ev, st, args, depth, t):
    for st2, n, pay in _as_variant(ev, st, args[0], OPT):
        yield ("ret", st2, args[1] if n == "None" else pay[0])


def m_option_unwrap_or_else(ev, st, args, depth, t):
    for st2, n, pay in _as_variant(ev, st, args[0], OPT):
        if n == "None":
            yield from ev.apply(st2, args[1], [], depth, t)
        else:
            yield ("ret", st2, pay[0])


def m_option_unwrap(ev, st, args, depth, t):
    for st2, n, pay in _as_variant(ev, st, args[0], OPT):
        if n == "None":
            yield ("panic", st2, "unwrap on None")
        else:
            yield ("ret", st2, pay[0])


def m_option_is_some(ev, st, args, depth, t):
    for st2, n, pay in _as_variant(ev, st, args[0], OPT):
        yield ("ret", st2, ("const", 1 if n == "Some" else 0))


def m_option_is_none(ev, st, args, depth, t):
    for st2, n, pay in _as_variant(ev, st, args[0], OPT):
        yield ("ret", st2, ("const", 1 if n == "None" else 0))


def m_option_ok_or(ev, st, args, depth, t):
    for st2, n, pay in _as_variant(ev, st, args[0], OPT):
        yield ("ret", st2, _res("Err", args[1]) if n == "None" else _res("Ok", pay[0]))


def m_option_take(ev, st, args, depth, t):
    root, projs = _place_of(args[0])
    old = ev._read(st, root, projs)
    ev._write(st, root, projs, _opt("None"))
    yield ("ret", st, old)


def m_option_as_ref(ev, st, args, depth, t):
    for st2, n, pay in _as_variant(ev, st, args[0], OPT):
        if n == "None":
            yield ("ret", st2, _opt("None"))
        else:
            r = strip(args[0])
            if isinstance(r, tuple) and r[0] == "ref":
                yield ("ret", st2, _opt("Some", mkref(r[1], tuple(r[2]) + (("dc", "Some", 1), ("f", 0, "0")))))
            else:
                yield ("ret", st2, _opt("Some", pay[0]))


def m_option_cloned(ev, st, args, depth, t):
    for st2, n, pay in _as_variant(ev, st, args[0], OPT):
        if n == "None":
            yield ("ret", st2, _opt("None"))
        else:
            for kind, st3, v in ev._call_path(st2, "std::clone::Clone::clone", "std::clone::Clone::clone", [pay[0]], t, depth, None):
                yield (kind, st3, _opt("Some", v) if kind == "ret" else v)


def m_option_copied(ev, st, args, depth, t):
    for st2, n, pay in _as_variant(ev, st, args[0], OPT):
        if n == "None":
            yield ("ret", st2, _opt("None"))
        else:
            p = strip(pay[0])
            v = ev._read(st2, p[1], tuple(p[2])) if isinstance(p, tuple) and p[0] == "ref" else ("deref", p)
            yield ("ret", st2, _opt("Some", v))


def m_result_ok(ev, st, args, depth, t):
    for st2, n, pay in _as_variant(ev, st, args[0], RES):
        yield ("ret", st2, _opt("Some", pay[0]) if n == "Ok" else _opt("None"))
        # the discarded payload is dropped by the callee
        if n == "Err":
            st2.effects.append(("drop", pay[0], "", ev.fresh()))


def m_result_err(ev, st, args, depth, t):
    for st2, n, pay in _as_variant(ev, st, args[0], RES):
        if n == "Ok":
            st2.effects.append(("drop", pay[0], "", ev.fresh()))
        yield ("ret", st2, _opt("Some", pay[0]) if n == "Err" else _opt("None"))


def m_result_map(ev, st, args, depth, t):
    for st2, n, pay in _as_variant(ev, st, args[0], RES):
        if n == "Err":
            yield ("ret", st2, _res("Err", pay[0]))
        else:
            for kind, st3, v in ev.apply(st2, args[1], pay, depth, t):
                yield (kind, st3, _res("Ok", v) if kind == "ret" else v)


def m_result_map_err(ev, st, args, depth, t):
    for st2, n, pay in _as_variant(ev, st, args[0], RES):
        if n == "Ok":
            yield ("ret", st2, _res("Ok", pay[0]))
        else:
            for kind, st3, v in ev.apply(st2, args[1], pay, depth, t):
                yield (kind, st3, _res("Err", v) if kind == "ret" else v)


def m_result_map_or(ev, st, args, depth, t):
    for st2, n, pay in _as_variant(ev, st, args[0], RES):
        if n == "Err":
            st2.effects.append(("drop", pay[0], "", ev.fresh()))
            yield ("ret", st2, args[1])
        else:
            yield from ev.apply(st2, args[2], pay, depth, t)


def m_result_map_or_else(ev, st, args, depth, t):
    for st2, n, pay in _as_variant(ev, st, args[0], RES):
        if n == "Err":
            yield from ev.apply(st2, args[1], pay, depth, t)
        else:
            yield from ev.apply(st2, args[2], pay, depth, t)


def m_result_and_then(ev, st, args, depth, t):
    for st2, n, pay in _as_variant(ev, st, args[0], RES):
        if n == "Err":
            yield ("ret", st2, _res("Err", pay[0]))
        else:
            yield from ev.apply(st2, args[1], pay, depth, t)


def m_result_is_ok(ev, st, args, depth, t):
    for st2, n, pay in _as_variant(ev, st, args[0], RES):
        yield ("ret", st2, ("const", 1 if n == "Ok" else 0))


def m_result_is_err(ev, st, args, depth, t):
    for st2, n, pay in _as_variant(ev, st, args[0], RES):
        yield ("ret", st2, ("const", 1 if n == "Err" else 0))


def m_try_branch(ev, st, args, depth, t):
    """`x?`: Option -> ControlFlow<Option<!>, T>; Result -> ControlFlow<Result<!, E>, T>."""
    dty = (t or {}).get("dty", "")
    is_res = "Result<" in dty.split("ControlFlow<", 1)[-1].split(",")[0] if "ControlFlow<" in dty else False
    adt = RES if is_res else OPT
    for st2, n, pay in _as_variant(ev, st, args[0], adt):
        if n in ("Some", "Ok"):
            yield ("ret", st2, ("agg", "adt", "std::ops::ControlFlow", "Continue", (pay[0],)))
        elif n == "None":
            yield ("ret", st2, ("agg", "adt", "std::ops::ControlFlow", "Break", (_opt("None"),)))
        else:
            yield ("ret", st2, ("agg", "adt", "std::ops::ControlFlow", "Break", (_res("Err", pay[0]),)))


def m_from_residual(ev, st, args, depth, t):
    v = strip(args[0])
    if v in st.refined:
        v = st.refined[v]
    if isinstance(v, tuple) and v[0] == "agg" and v[3] == "None":
        yield ("ret", st, _opt("None"))
        return
    if isinstance(v, tuple) and v[0] == "agg" and v[3] == "Err":
        # From::from on the error value: identity unless a crate-local From impl is involved (kept opaque then)
        yield ("ret", st, _res("Err", v[4][0]))
        return
    raise Stuck("from_residual of %s" % fmt(v))


def m_identity(ev, st, args, depth, t):
    yield ("ret", st, args[0])


def m_nonzero_new(ev, st, args, depth, t):
    v = strip(args[0])
    if v[0] == "const":
        yield ("ret", st, _opt("None") if v[1] == 0 else _opt("Some", ("nz", v)))
        return
    if v[0] == "discr":
        vs = ev._variants_of_term(st, v[1])
        if vs and all(d != 0 for _, d in vs):
            # the discriminant of an enum none of whose declared discriminants is 0
            yield ("ret", st, _opt("Some", ("nz", v)))
            return
    st0 = st.copy()
    if ev.add_cond(st0, v, "eq", 0):
        yield ("ret", st0, _opt("None"))
    st1 = st.copy()
    if ev.add_cond(st1, v, "ne", (0,)):
        yield ("ret", st1, _opt("Some", ("nz", v)))


def m_nonzero_get(ev, st, args, depth, t):
    v = strip(args[0])
    if v[0] == "nz":
        yield ("ret", st, v[1])
    else:
        yield ("ret", st, ("opq", ev.fresh(), ("nzget", v)))


def _place_of(v):
    """(root, projs) of the place a pointer value designates: a reference to a known place, or the cell of a symbolic pointer."""
    r = strip(v)
    if isinstance(r, tuple) and r and r[0] == "ref":
        return r[1], tuple(r[2])
    if isinstance(r, tuple) and r:
        return ("ext", r), ()
    raise Stuck("not a place")


def m_mem_replace(ev, st, args, depth, t):
    root, projs = _place_of(args[0])
    old = ev._read(st, root, projs)
    ev._write(st, root, projs, args[1])
    yield ("ret", st, old)


def m_ptr_as_ref(ev, st, args, depth, t):
    """`<*const T>::as_ref` / `<*mut T>::as_mut`: None for a null pointer, Some(&*p) otherwise.  Pointers made from references (and
    symbolic inputs declared with `Evaluator.nonnull`) are never null."""
    v = strip(args[0])
    if (isinstance(v, tuple) and v[0] == "ref") or v in getattr(ev, "nonnull", ()):
        yield ("ret", st, _opt("Some", args[0]))
        return
    st0 = st.copy()
    if ev.add_cond(st0, v, "eq", 0):
        yield ("ret", st0, _opt("None"))
    st1 = st.copy()
    if ev.add_cond(st1, v, "ne", (0,)):
        yield ("ret", st1, _opt("Some", args[0]))


def m_mem_take(ev, st, args, depth, t):
    """`mem::take(place)`: the old value is returned and the place holds `T::default()` (the crate-local impl is stepped into)."""
    r = strip(args[0])
    if isinstance(r, tuple) and r[0] == "ref":
        root, projs = r[1], tuple(r[2])
    elif isinstance(r, tuple):
        root, projs = ("ext", r), ()
    else:
        raise Stuck("mem::take on a non-place")
    old = ev._read(st, root, projs)
    ty = ((t or {}).get("callee") or {}).get("args", [""])[0]
    dfn = ev.fns.get("<%s as std::default::Default>::default" % ty)
    if dfn is None:
        ev._write(st, root, projs, ("opq", ev.fresh(), ("default", ty)))
        yield ("ret", st, old)
        return
    for kind, st2, v in ev._exec_fn(st, dfn, [], depth + 1):
        if kind == "ret":
            ev._write(st2, root, projs, v)
            yield ("ret", st2, old)
        else:
            yield (kind, st2, v)


def m_deref(ev, st, args, depth, t):
    # Deref of plain references only (method resolution on &&T); wrappers stay opaque through the generic path
    raise Stuck("deref model")


MODELS = {
    "std::option::Option::<T>::map": m_option_map,
    "std::option::Option::<T>::map_or": m_option_map_or,
    "std::option::Option::<T>::map_or_else": m_option_map_or_else,
    "std::option::Option::<T>::and_then": m_option_and_then,
    "std::option::Option::<T>::unwrap_or": m_option_unwrap_or,
    "std::option::Option::<T>::filter": m_option_filter,
    "std::option::Option::<T>::zip": m_option_zip,
    "std::option::Option::<T>::and": m_option_and,
    "std::option::Option::<T>::or": m_option_or,
    "core::bool::<impl bool>::then_some": m_bool_then_some,
    "std::bool::<impl bool>::then_some": m_bool_then_some,
    "std::option::Option::<T>::unwrap_or_else": m_option_unwrap_or_else,
    "std::option::Option::<T>::unwrap": m_option_unwrap,
    "std::option::Option::<T>::expect": m_option_unwrap,
    "std::option::Option::<T>::is_some": m_option_is_some,
    "std::option::Option::<T>::is_none": m_option_is_none,
    "std::option::Option::<T>::ok_or": m_option_ok_or,
    "std::option::Option::<T>::take": m_option_take,
    "std::option::Option::<T>::as_ref": m_option_as_ref,
    "std::option::Option::<T>::as_mut": m_option_as_ref,
    "std::option::Option::<&T>::cloned": m_option_cloned,
    "std::option::Option::<&mut T>::cloned": m_option_cloned,
    "std::option::Option::<&T>::copied": m_option_copied,
    "std::result::Result::<T, E>::ok": m_result_ok,
    "std::result::Result::<T, E>::err": m_result_err,
    "std::result::Result::<T, E>::map": m_result_map,
    "std::result::Result::<T, E>::map_err": m_result_map_err,
    "std::result::Result::<T, E>::map_or": m_result_map_or,
    "std::result::Result::<T, E>::map_or_else": m_result_map_or_else,
    "std::result::Result::<T, E>::and_then": m_result_and_then,
    "std::result::Result::<T, E>::is_ok": m_result_is_ok,
    "std::result::Result::<T, E>::is_err": m_result_is_err,
    "std::ops::Try::branch": m_try_branch,
    "std::ops::FromResidual::from_residual": m_from_residual,
    "std::num::NonZero::<T>::new": m_nonzero_new,
    "std::num::NonZero::<T>::get": m_nonzero_get,
    "std::mem::replace": m_mem_replace,
    "std::mem::take": m_mem_take,
    "std::ptr::const_ptr::<impl *const T>::as_ref": m_ptr_as_ref,
    "std::ptr::mut_ptr::<impl *mut T>::as_ref": m_ptr_as_ref,
    "std::ptr::mut_ptr::<impl *mut T>::as_mut": m_ptr_as_ref,
}
