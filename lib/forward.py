"""Per-method analysis of the three-layer forwarder: opaque impl -> vtable slot -> extern "C" wrapper -> user method."""
import re
from . import mir

TG = "cglue::trait_group::"
ACCESSORS = {  # wrapper-side accessor -> (receiver kind, opaque-side container getter)
    TG + "CGlueObjRef::cobj_ref": ("ref", TG + "GetContainer::ccont_ref"),
    TG + "CGlueObjMut::cobj_mut": ("mut", TG + "GetContainer::ccont_mut"),
    TG + "CGlueObjRef::cobj_pin_ref": ("pinref", TG + "GetContainer::ccont_pin_ref"),
    TG + "CGlueObjMut::cobj_pin_mut": ("pinmut", TG + "GetContainer::ccont_pin_mut"),
    TG + "CGlueObjBase::cobj_base_owned": ("own", TG + "GetContainer::into_ccont"),
}
INTO = "std::convert::Into::into"


def norm_impl(s):
    """Impl path without lifetimes: stable key for the conversion-pair table."""
    if s is None:
        return None
    s = re.sub(r"'\w+,? ?", "", s)
    s = s.replace("<, ", "<").replace("< ", "<")
    return s


def leafify(o):
    """Strip reborrows / derefs."""
    return mir.strip(o, casts=False)


def chain_to(o, is_leaf, depth=0):
    """Calls wrapping a leaf, outermost first: [(callee path, frozen callee, arg index holding the leaf)] or None."""
    o = leafify(o)
    if is_leaf(o):
        return []
    if depth > 12:
        return None
    if o[0] == "call":
        hits = []
        for idx, a in enumerate(o[2]):
            sub = chain_to(a, is_leaf, depth + 1)
            if sub is not None:
                hits.append((idx, sub))
        if len(hits) == 1:
            idx, sub = hits[0]
            return [(o[1], o[4], idx)] + sub
        return None
    if o[0] == "icall":
        hits = []
        for idx, a in enumerate(o[2]):
            sub = chain_to(a, is_leaf, depth + 1)
            if sub is not None:
                hits.append((idx, sub))
        if len(hits) == 1:
            return [("<indirect>", None, hits[0][0])] + hits[0][1]
        return None
    if o[0] == "cast":
        sub = chain_to(o[2], is_leaf, depth + 1)
        if sub is not None:
            return [("<cast:%s>" % o[1], None, 0)] + sub
        return None
    if o[0] == "field":
        # projections of aggregates/tuples are not conversions of the leaf itself
        return None
    return None


def conv_kind(chain):
    """Classify a conversion chain: ('id',) | ('from', impl) | ('into_str',) | ('user_into',) | ('other', names)."""
    if chain is None:
        return ("unknown",)
    names = [c[0] for c in chain if not c[0].startswith("<cast:PtrToPtr") and not c[0].startswith("<cast:PointerCoercion")]
    real = [c for c in chain if not c[0].startswith("<cast")]
    if not real:
        return ("id",)
    if len(real) == 1:
        p, fr, _ = real[0]
        if p == INTO:
            via = fr[4] if fr else None
            if via and norm_impl(via) == "<T as std::convert::From<T>>":
                return ("id",)      # reflexive From: T -> T
            if via:
                return ("from", norm_impl(via))
            return ("user_into",)
        if p.endswith("::into_str") and "cglue::slice::" in p:
            return ("into_str", norm_impl(p))
        if p == "std::convert::From::from":
            return ("from", norm_impl(fr[3]) if fr and fr[3] else None)
    return ("other", tuple(c[0] for c in real))


class WrapperInfo:
    pass


def analyze_wrapper(g, name, w):
    info = WrapperInfo()
    body = mir.Body(w)
    info.body = body
    info.fn = w
    info.trait_calls = [(i, t) for i, t in body.calls() if (t.get("callee") or {}).get("trait") == g.trait_path
                        and (t["callee"].get("self", "").endswith("as cglue::trait_group::CGlueObjBase>::ObjType"))]
    info.accessor = None
    info.recv_kind = None
    for i, t in body.calls():
        p = mir.callee_path(t)
        if p in ACCESSORS:
            info.accessor = (i, t, p)
            info.recv_kind = ACCESSORS[p][0]
    info.args = []
    info.recv_origin = None
    info.ret_chain = None
    if len(info.trait_calls) == 1:
        i, t = info.trait_calls[0]
        info.call_bb = i
        info.method = t["callee"]["name"]
        info.recv_origin = body.origin_operand(t["args"][0])
        for k, a in enumerate(t["args"][1:], start=1):
            o = body.origin_operand(a)
            # which wrapper parameter does it come from
            src = None
            ch = None
            for p in range(2, body.argc + 1):
                c = chain_to(o, lambda x, p=p: x == ("arg", p))
                if c is not None:
                    src, ch = p, c
                    break
            info.args.append({"pos": k, "param": src, "conv": conv_kind(ch), "origin": o})
        ret = body.origin_local(0)
        info.ret_origin = ret
        info.ret_chain = chain_to(ret, lambda x: x[0] == "call" and x[3] == i and x[1] == t["callee"]["path"])
    return info


class OpaqueInfo:
    pass


def analyze_opaque(g, name, f):
    info = OpaqueInfo()
    body = mir.Body(f)
    info.body = body
    info.fn = f
    info.icalls = [(i, t) for i, t in body.calls() if t.get("callee") is None]
    info.args = []
    info.slot = None
    info.getter = None
    info.cont_call = None
    info.ret_chain = None
    if len(info.icalls) == 1:
        i, t = info.icalls[0]
        info.call_bb = i
        fo = leafify(body.origin_operand(t["f"]))
        info.callee_origin = fo
        if fo[0] == "field":
            info.slot = fo[2]
            base = leafify(fo[1])
            info.vtbl_src = base
        elif fo[0] == "call":
            info.getter = fo[1]
            info.vtbl_src = leafify(fo[2][0]) if fo[2] else None
        else:
            info.vtbl_src = None
        a0 = leafify(body.origin_operand(t["args"][0]))
        if a0[0] == "call":
            info.cont_call = (a0[1], leafify(a0[2][0]) if a0[2] else None)
        for k, a in enumerate(t["args"][1:], start=1):
            o = body.origin_operand(a)
            src, ch = None, None
            for p in range(2, body.argc + 1):
                c = chain_to(o, lambda x, p=p: x == ("arg", p))
                if c is not None:
                    src, ch = p, c
                    break
            info.args.append({"pos": k, "param": src, "conv": conv_kind(ch), "origin": o})
        ret = body.origin_local(0)
        info.ret_origin = ret
        info.ret_chain = chain_to(ret, lambda x: x[0] == "icall" and x[3] == i)
    return info


def recv_kind_of_trait_input(ty):
    t = ty.replace("'_ ", "").strip()
    if t.startswith("std::pin::Pin<&") or t.startswith("core::pin::Pin<&"):
        return "pinmut" if "mut Self" in t else "pinref"
    if t.startswith("&") and "mut Self" in t:
        return "mut"
    if t.startswith("&"):
        return "ref"
    if t == "Self":
        return "own"
    return None
