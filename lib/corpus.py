"""Generate the corpus crate for a tier and obtain its facts / lint diagnostics."""
import hashlib, json, os, shutil, subprocess, sys
from . import facts

VERIF = facts.VERIF
WORK = os.environ.get("CGV_WORK", "/var/tmp/cgv-work")


def _gen_hash():
    h = hashlib.sha256()
    for root in (os.path.join(VERIF, "corpus"),):
        h.update(facts._hash_tree(root, exts=(".py", ".rs")).encode())
    return h.hexdigest()[:16]


def corpus_dir(tier):
    d = os.path.join(WORK, "corpus-%s-%s" % (tier, _gen_hash()))
    if not os.path.exists(os.path.join(d, "expect.json")):
        os.makedirs(d, exist_ok=True)
        env = dict(os.environ)
        env["CGV_REPO"] = facts.REPO
        subprocess.check_call([sys.executable, os.path.join(VERIF, "corpus", "gen.py"), d, tier], env=env,
                              stdout=subprocess.DEVNULL)
    # the lock file must follow /repo (harness crates path-depending on /repo need its versions)
    shutil.copy(os.path.join(facts.REPO, "Cargo.lock"), os.path.join(d, "Cargo.lock"))
    return d


def expect(tier):
    with open(os.path.join(corpus_dir(tier), "expect.json")) as fh:
        return json.load(fh)


def corpus_facts(tier, features=None):
    d = corpus_dir(tier)
    args = ["check"]
    name = "corpus-" + tier
    if features:
        args += ["--features", features]
        name += "+" + features
    return facts.run_config(name, d, args, ["cgv_corpus"], extra_hash=_gen_hash())


def controls_facts():
    d = os.path.join(WORK, "controls-%s" % _ctl_hash())
    src = os.path.join(VERIF, "controls")
    if not os.path.exists(os.path.join(d, "Cargo.toml")):
        shutil.copytree(src, d, dirs_exist_ok=True, ignore=shutil.ignore_patterns("target"))
        with open(os.path.join(d, "Cargo.toml")) as fh:
            t = fh.read()
        with open(os.path.join(d, "Cargo.toml"), "w") as fh:
            fh.write(t.replace("/repo/", facts.REPO + "/"))
    shutil.copy(os.path.join(facts.REPO, "Cargo.lock"), os.path.join(d, "Cargo.lock"))
    return facts.run_config("controls", d, ["check"], ["cgv_controls"], extra_hash=_ctl_hash())


def _ctl_hash():
    return facts._hash_tree(os.path.join(VERIF, "controls"), exts=(".rs", ".toml"))[:16]


def run_witnesses():
    """Build the compile-fail witness crate against REPO with `cargo +nightly test --doc`; returns [(name, kind, ok)]."""
    import re, tempfile
    src = os.path.join(VERIF, "witness")
    d = os.path.join(WORK, "witness-%s" % facts._hash_tree(src, exts=(".rs", ".toml"))[:16])
    os.makedirs(d, exist_ok=True)
    shutil.copytree(src, d, dirs_exist_ok=True, ignore=shutil.ignore_patterns("target", "Cargo.lock"))
    with open(os.path.join(d, "Cargo.toml")) as fh:
        t = fh.read()
    with open(os.path.join(d, "Cargo.toml"), "w") as fh:
        fh.write(t.replace("/repo/", facts.REPO + "/"))
    shutil.copy(os.path.join(facts.REPO, "Cargo.lock"), os.path.join(d, "Cargo.lock"))
    env = dict(os.environ, CARGO_TARGET_DIR=os.path.join(facts.shared_target(), "witness"), CARGO_NET_OFFLINE="true", CARGO_TERM_COLOR="never")
    env.pop("RUSTC_WRAPPER", None)
    env.pop("RUSTFLAGS", None)
    p = subprocess.run(["cargo", "+nightly", "test", "--doc", "--offline"], cwd=d, env=env, stdout=subprocess.PIPE, stderr=subprocess.STDOUT, text=True)
    out = []
    for m in re.finditer(r"^test src/lib.rs - (\w+) \(line (\d+)\) - (compile fail|compile) \.\.\. (\w+)", p.stdout, re.M):
        out.append((m.group(1), m.group(3), m.group(4) == "ok"))
    return out, p.stdout[-3000:]
