"""Ownership ledger: sites that bypass Rust's ownership tracking, with a signed effect, and per-path nets.

effect -1 (S): the tracked owner is relinquished without being destroyed (bits live on untracked);
effect +1 (D): a tracked owner is materialised from bits / a value is destroyed in place.
A function whose every path nets 0 is balanced; -1 is a constructor (must be paired with a stored reclaimer);
+1 is a destructor (must sit in a reclaimer slot or be Drop::drop).
"""
import re
from . import mir

S, D = -1, +1

# resolved callee path -> (effect, kind).  Matching is by exact path or by the listed suffix after `::`.
PRIMS = [
    (r"^std::mem::forget$", S, "forget"),
    (r"^std::mem::ManuallyDrop::<T>::new$", S, "manuallydrop_new"),
    (r"^std::boxed::Box::<T(, A)?>::leak$", S, "box_leak"),
    (r"^std::boxed::Box::<T(, A)?>::into_raw$", S, "box_into_raw"),
    (r"^std::sync::Arc::<T(, A)?>::into_raw$", S, "arc_into_raw"),
    (r"^tarc::BaseArc::<T>::into_raw$", S, "basearc_into_raw"),
    (r"^std::ptr::write$", S, "ptr_write"),
    (r"^std::ptr::mut_ptr::<impl \*mut T>::write$", S, "ptr_write"),
    (r"^std::mem::MaybeUninit::<T>::write$", S, "maybeuninit_write"),
    (r"^tarc::BaseArc::<T>::increment_strong_count$", S, "increment_strong_count"),
    (r"^std::sync::Arc::<T(, A)?>::increment_strong_count$", S, "increment_strong_count"),
    (r"^std::boxed::Box::<T>::from_raw$", D, "box_from_raw"),
    (r"^std::sync::Arc::<T>::from_raw$", D, "arc_from_raw"),
    (r"^tarc::BaseArc::<T>::from_raw$", D, "basearc_from_raw"),
    (r"^std::vec::Vec::<T>::from_raw_parts$", D, "vec_from_raw_parts"),
    (r"^std::ptr::read$", D, "ptr_read"),
    (r"^std::ptr::(const|mut)_ptr::<impl \*(const|mut) T>::read$", D, "ptr_read"),
    (r"^std::mem::MaybeUninit::<T>::assume_init$", D, "assume_init"),
    (r"^std::mem::MaybeUninit::<T>::assume_init_read$", D, "assume_init_read"),
    (r"^std::mem::ManuallyDrop::<T>::(take|into_inner)$", D, "manuallydrop_take"),
    (r"^std::ptr::drop_in_place$", D, "drop_in_place"),
    (r"^std::mem::MaybeUninit::<T>::assume_init_drop$", D, "assume_init_drop"),
    (r"^std::ptr::copy(_nonoverlapping)?$", D, "ptr_copy"),
    (r"^std::intrinsics::copy(_nonoverlapping)?$", D, "ptr_copy"),
    (r"^std::task::Waker::from_raw$", D, "waker_from_raw"),
]
PRIMS = [(re.compile(p), e, k) for p, e, k in PRIMS]

DROPPY = ("std::task::Waker", "std::boxed::Box<", "std::sync::Arc<", "std::vec::Vec<", "std::string::String", "tarc::BaseArc<")


def droppy(ty):
    t = ty.lstrip()
    return any(t.startswith(d) or t == d for d in DROPPY)


class Site:
    def __init__(self, bb, effect, kind, callee, term=None, stmt=None, line=None):
        self.bb, self.effect, self.kind, self.callee, self.term, self.stmt, self.line = bb, effect, kind, callee, term, stmt, line

    def __repr__(self):
        return "%+d %s@bb%d L%s" % (self.effect, self.kind, self.bb, self.line)


def prim_sites(body, role_slots=None):
    """Primitive sites of a body (live, non-cleanup blocks)."""
    out = []
    live = body.live_blocks()
    for i in sorted(live):
        bb = body.blocks[i]
        for s in bb["s"]:
            if s["k"] == "assign" and s["r"]["k"] == "cast" and s["r"]["ck"] == "Transmute":
                f, t = s["r"].get("from_ty", ""), s["r"]["ty"]
                if droppy(f) and not droppy(t) and not f.startswith("&") and not t.startswith("&"):
                    out.append(Site(i, S, "transmute_to_bits", "transmute %s -> %s" % (f, t), stmt=s, line=s.get("line")))
                elif droppy(t) and not droppy(f) and not f.startswith("&") and not t.startswith("&"):
                    out.append(Site(i, D, "transmute_from_bits", "transmute %s -> %s" % (f, t), stmt=s, line=s.get("line")))
            if s["k"] == "intrinsic" and "copy_nonoverlapping" in s.get("dbg", "").lower():
                out.append(Site(i, D, "ptr_copy", "copy_nonoverlapping (intrinsic statement)", stmt=s, line=s.get("line")))
        t = bb["t"]
        if t["k"] == "call":
            c = t.get("callee")
            if c:
                p = (c.get("res") or {}).get("path") or c["path"]
                for rx, e, k in PRIMS:
                    if rx.match(p) or rx.match(c["path"]):
                        out.append(Site(i, e, k, p, term=t, line=t.get("line")))
                        break
            else:
                o = mir.strip(body.origin_operand(t["f"]))
                name = o[2] if o[0] == "field" else (o[2] if o[0] == "downcast" else None)
                if o[0] == "field" and o[1][0] == "downcast":
                    # (opt as Some).0 where opt = self.drop_fn
                    inner = mir.strip(o[1][1])
                    # unwrap through Option::take / copies
                    while inner[0] == "call" and inner[1].endswith("::take"):
                        inner = mir.strip(inner[2][0])
                    if inner[0] == "field":
                        name = inner[2]
                if role_slots and name in role_slots:
                    out.append(Site(i, role_slots[name], "slot:" + name, "indirect call through `%s`" % name, term=t, line=t.get("line")))
    return out


ROLE_SLOTS = {"drop_fn": D, "clone_fn": S, "reserve_fn": 0}


def path_nets(body, sites, limit=3000):
    """{net: example path} over acyclic entry->return paths; ('loop', site) entries for sites inside cycles."""
    by_bb = {}
    for s in sites:
        by_bb.setdefault(s.bb, []).append(s)
    loops = [s for s in sites if body.in_cycle(s.bb)]
    nets = {}
    try:
        paths = body.paths_to_return(limit)
    except RuntimeError:
        paths = None
    if paths is None:
        return None, loops
    for p in paths:
        n = sum(s.effect for b in p for s in by_bb.get(b, []))
        nets.setdefault(n, p)
    return nets, loops


def fn_summary(fn, role_slots=ROLE_SLOTS):
    body = mir.Body(fn)
    sites = prim_sites(body, role_slots)
    nets, loops = path_nets(body, sites)
    return body, sites, nets, loops
