"""Run cgv-driver over a crate configuration and load the resulting facts (memoised by content hash)."""
import hashlib, json, os, shutil, subprocess, sys, tempfile, time, atexit

VERIF = os.path.dirname(os.path.dirname(os.path.abspath(__file__)))
REPO = os.environ.get("CGV_REPO", "/repo")
DRIVER = os.path.join(VERIF, "driver", "target", "debug", "cgv-driver")
CACHE = os.environ.get("CGV_CACHE", "/var/tmp/cgv-cache")
_SYSROOT = None
_TARGET = None
_REPO_HASH = None


def sysroot():
    global _SYSROOT
    if _SYSROOT is None:
        _SYSROOT = subprocess.check_output(["rustc", "+nightly", "--print", "sysroot"], text=True).strip()
    return _SYSROOT


def _hash_tree(root, exts=None, skip=("target", ".git")):
    h = hashlib.sha256()
    for d, dirs, files in os.walk(root):
        dirs[:] = sorted(x for x in dirs if x not in skip)
        for f in sorted(files):
            p = os.path.join(d, f)
            if exts and not f.endswith(exts):
                continue
            try:
                with open(p, "rb") as fh:
                    data = fh.read()
            except OSError:
                continue
            h.update(os.path.relpath(p, root).encode())
            h.update(b"\0")
            h.update(hashlib.sha256(data).digest())
    return h.hexdigest()


def repo_hash():
    global _REPO_HASH
    if _REPO_HASH is None:
        _REPO_HASH = _hash_tree(REPO)
    return _REPO_HASH


def driver_hash():
    with open(DRIVER, "rb") as fh:
        return hashlib.sha256(fh.read()).hexdigest()


def ensure_driver():
    if not os.path.exists(DRIVER):
        subprocess.check_call(["cargo", "build", "--offline"], cwd=os.path.join(VERIF, "driver"))
    return DRIVER


def shared_target():
    """One scratch target dir per process, removed at exit (deps are shared by the configs of one run)."""
    global _TARGET
    if _TARGET is None:
        os.makedirs("/var/tmp", exist_ok=True)
        _TARGET = tempfile.mkdtemp(prefix="cgv-tgt.", dir="/var/tmp")
        atexit.register(lambda: shutil.rmtree(_TARGET, ignore_errors=True))
    return _TARGET


class Facts:
    """All facts of one configuration; `units` maps the driver tag (crate-kind) to its records."""

    def __init__(self, name, files):
        self.name = name
        self.units = {}
        self.records = []
        for path in files:
            with open(path) as fh:
                recs = [json.loads(l) for l in fh if l.strip()]
            tag = recs[0]["tag"]
            for r in recs:
                r["_unit"] = tag
            self.units[tag] = recs
            self.records.extend(recs)
        self.diagnostics = []
        if files:
            dp = os.path.join(os.path.dirname(files[0]), "diagnostics.json")
            if os.path.exists(dp):
                with open(dp) as fh:
                    self.diagnostics = json.load(fh)
        self._by_kind = {}
        for r in self.records:
            self._by_kind.setdefault(r["k"], []).append(r)

    def kind(self, k, unit=None):
        rs = self._by_kind.get(k, [])
        if unit is not None:
            rs = [r for r in rs if r["_unit"] == unit]
        return rs

    def fns(self, unit=None):
        return self.kind("fn", unit)

    def fn(self, path, unit=None):
        m = [f for f in self.fns(unit) if f["path"] == path]
        return m

    def adts(self, unit=None):
        return self.kind("adt", unit)

    def impls(self, unit=None):
        return self.kind("impl", unit)

    def traits(self, unit=None):
        return self.kind("trait", unit)

    def probes(self, unit=None):
        return self.kind("probe", unit)


def run_config(name, cwd, cargo_args, crates, extra_hash="", env_extra=None, quiet=True, rustflags_extra=""):
    """Returns Facts for the configuration, from cache when /repo, driver and config are unchanged."""
    ensure_driver()
    key_src = json.dumps([name, cwd, cargo_args, crates, repo_hash(), driver_hash(), extra_hash, rustflags_extra], sort_keys=True)
    key = hashlib.sha256(key_src.encode()).hexdigest()[:24]
    cdir = os.path.join(CACHE, key)
    if os.path.isdir(cdir) and os.path.exists(os.path.join(cdir, "DONE")):
        files = sorted(os.path.join(cdir, f) for f in os.listdir(cdir) if f.endswith(".jsonl"))
        if files:
            try:
                os.utime(os.path.join(cdir, "DONE"))      # mark as recently used
            except OSError:
                pass
            return Facts(name, files)
    out = tempfile.mkdtemp(prefix="cgv-out.", dir="/var/tmp")
    try:
        env = dict(os.environ)
        env.update({
            "LD_LIBRARY_PATH": sysroot() + "/lib",
            "RUSTFLAGS": ("-Zmir-opt-level=0 " + rustflags_extra).strip(),
            "RUSTC_WRAPPER": DRIVER,
            "CGV_OUT": out,
            "CGV_CRATES": ",".join(crates),
            "CARGO_TARGET_DIR": shared_target(),
            "CARGO_NET_OFFLINE": "true",
            "CARGO_TERM_COLOR": "never",
        })
        env.pop("RUSTC_WORKSPACE_WRAPPER", None)
        if env_extra:
            env.update(env_extra)
        t0 = time.time()
        p = subprocess.run(["cargo", "+nightly"] + cargo_args + ["--offline", "--message-format=json"], cwd=cwd, env=env,
                           stdout=subprocess.PIPE, stderr=subprocess.PIPE, text=True)
        diags = []
        for line in p.stdout.splitlines():
            if not line.startswith("{"):
                continue
            try:
                m = json.loads(line)
            except ValueError:
                continue
            if m.get("reason") == "compiler-message":
                d = m["message"]
                diags.append({
                    "package": m.get("package_id", ""),
                    "target": (m.get("target") or {}).get("name"),
                    "level": d.get("level"),
                    "code": (d.get("code") or {}).get("code"),
                    "message": d.get("message"),
                    "spans": [{"file": sp["file_name"], "line": sp["line_start"], "text": [t["text"] for t in sp.get("text", [])][:1],
                               "primary": sp.get("is_primary")} for sp in d.get("spans", [])],
                    "children": [c.get("message") for c in d.get("children", [])],
                    "rendered": d.get("rendered"),
                })
        if p.returncode != 0:
            for d in diags:
                if d["level"] == "error":
                    sys.stderr.write(d.get("rendered") or d["message"])
            sys.stderr.write(p.stderr[-4000:])
            raise RuntimeError("cgv: cargo failed for configuration %s (the analysed tree does not compile)" % name)
        files = sorted(os.path.join(out, f) for f in os.listdir(out) if f.endswith(".jsonl"))
        if not files:
            raise RuntimeError("cgv: driver produced no fact file for %s (wrapper skipped?)" % name)
        os.makedirs(CACHE, exist_ok=True)
        tmpc = tempfile.mkdtemp(prefix="tmp.", dir=CACHE)
        for f in files:
            shutil.copy(f, tmpc)
        with open(os.path.join(tmpc, "diagnostics.json"), "w") as fh:
            json.dump(diags, fh)
        with open(os.path.join(tmpc, "DONE"), "w") as fh:
            fh.write("%s %.1fs\n" % (name, time.time() - t0))
        if os.path.isdir(cdir):
            shutil.rmtree(cdir, ignore_errors=True)
        try:
            os.rename(tmpc, cdir)
        except OSError:
            shutil.rmtree(tmpc, ignore_errors=True)
        files = sorted(os.path.join(cdir, f) for f in os.listdir(cdir) if f.endswith(".jsonl"))
        prune_cache()
        return Facts(name, files)
    finally:
        shutil.rmtree(out, ignore_errors=True)


CACHE_MAX_ENTRIES = 240     # one tree needs ~15 configurations; scratch trees of the self-test runs come and go


def prune_cache():
    """Least-recently-used eviction: the fact cache is keyed by tree content, so every mutant / patch run adds entries that are never
    used again; without a bound the cache filled the disk (121 GB) during the regression runs."""
    try:
        ents = [os.path.join(CACHE, d) for d in os.listdir(CACHE) if not d.startswith("tmp.")]
        if len(ents) <= CACHE_MAX_ENTRIES:
            return
        def stamp(d):
            try:
                return os.path.getmtime(os.path.join(d, "DONE"))
            except OSError:
                return 0
        ents.sort(key=stamp)
        for d in ents[:len(ents) - CACHE_MAX_ENTRIES * 3 // 4]:
            shutil.rmtree(d, ignore_errors=True)
    except OSError:
        pass


# ---- standard configurations over /repo -------------------------------------------------

def cfg_cglue(features=None, tests=False):
    args = ["check", "-p", "cglue"]
    name = "cglue"
    if features:
        args += ["--features", features]
        name += "+" + features
    if tests:
        args += ["--tests"]
        name += "+tests"
    return run_config(name, REPO, args, ["cglue"])


def cfg_gen(features=None):
    args = ["check", "-p", "cglue-gen", "-p", "cglue-macro"]
    name = "cglue-gen"
    if features:
        # per-package feature names, e.g. "cglue-gen/layout_checks,cglue-macro/layout_checks"
        args += ["--features", features]
        name += "+" + features
    return run_config(name, REPO, args, ["cglue_gen", "cglue_macro"])


def cfg_bindgen():
    return run_config("cglue-bindgen", REPO, ["check", "-p", "cglue-bindgen"], ["cglue_bindgen"])


def cfg_examples(features=None):
    args = ["check", "-p", "plugin-api", "-p", "plugin-lib", "-p", "user-bin"]
    name = "examples"
    if features:
        args += ["--features", features]
        name += "+" + features
    return run_config(name, REPO, args, ["plugin_api", "plugin_lib", "user_bin"])
