"""Semantic discovery of cglue-generated items in a fact unit (vtables, wrappers, opaque impls, groups).

Items are found by what they *are* (an ADT implementing CGlueBaseVtbl; the fn items stored in the promoted
aggregate of <&Vtbl as Default>::default; the blanket `impl Trait for CGlueO`), names are used for reports only.
"""
from . import mir

TG = "cglue::trait_group::"


def adt_fields(adt):
    """(name, field) of a struct ADT, declaration order."""
    if not adt["variants"]:
        return []
    return [(f["name"], f) for f in adt["variants"][0]["fields"]]


def is_phantom(field):
    sh = field.get("shape") or {}
    return bool(sh.get("phantom")) or field["ty"].startswith("std::marker::PhantomData<") or field["ty"].startswith("core::marker::PhantomData<")


class GenTrait:
    def __init__(self):
        self.vtbl = None
        self.vtbl_path = None
        self.base_impl = None
        self.default_fn = None
        self.slots = {}        # field -> wrapper path
        self.wrappers = {}     # field -> fn fact
        self.trait_path = None
        self.trait = None
        self.opaque = {}       # method -> fn fact
        self.getters = {}      # name -> fn fact (inherent fns on the vtable)
        self.unit = None

    def fn_fields(self):
        return [(n, f) for n, f in adt_fields(self.vtbl) if not is_phantom(f)]


class Group:
    def __init__(self):
        self.name = None
        self.base = None        # adt
        self.container = None   # adt
        self.vtables = None     # adt (XVtables)
        self.withs = {}         # name -> adt
        self.finals = {}        # name -> adt
        self.unit = None
        self.mod = None


class Model:
    def __init__(self, facts, unit=None):
        self.facts = facts
        self.unit = unit
        self.adts = {a["path"]: a for a in facts.adts(unit)}
        self.fns = {}
        for f in facts.fns(unit):
            self.fns.setdefault(f["path"], []).append(f)
        self.traits_by_path = {t["path"]: t for t in facts.traits(unit)}
        self.impls = facts.impls(unit)
        self.gen_traits = self._discover_traits()
        self.groups = self._discover_groups()

    def fn(self, path):
        v = self.fns.get(path)
        return v[0] if v else None

    # ---------------------------------------------------------------------------------
    def _discover_traits(self):
        out = []
        # inherent methods by impl self adt
        inherent = {}
        for f in self.facts.fns(self.unit):
            if f.get("parent_kind", "").startswith("Impl") and "impl_trait" not in f and f.get("impl_self_adt"):
                inherent.setdefault(f["impl_self_adt"], {})[f["name"]] = f
        defaults = {}
        for f in self.facts.fns(self.unit):
            if f.get("impl_trait") == "std::default::Default" and f.get("impl_self", "").startswith("&"):
                for pb in f.get("promoted", []):
                    for bb in pb["blocks"]:
                        for s in bb["s"]:
                            if s["k"] == "assign" and s["r"]["k"] == "agg" and s["r"].get("ak") == "adt":
                                defaults.setdefault(s["r"]["adt"], []).append((f, pb))
        opaque_by_trait = {}
        for f in self.facts.fns(self.unit):
            if f.get("impl_self") == "CGlueO" and f.get("impl_trait"):
                opaque_by_trait.setdefault(f["impl_trait"], {})[f["name"]] = f
        for im in self.impls:
            if im.get("trait") != TG + "CGlueBaseVtbl" or not im.get("self_adt"):
                continue
            g = GenTrait()
            g.unit = im["_unit"]
            g.base_impl = im
            g.vtbl_path = im["self_adt"]
            g.vtbl = self.adts.get(g.vtbl_path)
            if g.vtbl is None:
                continue
            g.getters = inherent.get(g.vtbl_path, {})
            ds = defaults.get(g.vtbl_path, [])
            if ds:
                g.default_fn, pb = ds[0]
                g.n_defaults = len(ds)
                body = mir.Body(g.default_fn, pb)
                for bb in pb["blocks"]:
                    for s in bb["s"]:
                        if s["k"] == "assign" and s["r"]["k"] == "agg" and s["r"].get("adt") == g.vtbl_path:
                            for name, op in zip(s["r"]["fields"], s["r"]["ops"]):
                                o = body.origin_operand(op)
                                while o[0] == "cast":
                                    o = o[2]
                                if o[0] == "fnconst":
                                    g.slots[name] = o[1]
                for name, wp in g.slots.items():
                    w = self.fn(wp)
                    if w is not None:
                        g.wrappers[name] = w
            # wrapped user trait = trait of the method called on <CGlueC as CGlueObjBase>::ObjType
            cand = {}
            for name, w in g.wrappers.items():
                for tp, _m in wrapper_trait_calls(w):
                    cand[tp] = cand.get(tp, 0) + 1
            if cand:
                g.trait_path = sorted(cand.items(), key=lambda kv: -kv[1])[0][0]
            else:
                # vtable without wrappers (empty trait) -- fall back on the where-clause `ObjType: Trait`
                for p in im.get("preds", []):
                    if p.startswith("<CGlueC as cglue::trait_group::CGlueObjBase>::ObjType: ") and "::" in p:
                        t = p.split(": ", 1)[1]
                        t = t.split("<")[0]
                        if not t.startswith("std::marker") and not t.startswith("core::marker"):
                            g.trait_path = t
            g.trait = self.traits_by_path.get(g.trait_path)
            g.opaque = opaque_by_trait.get(g.trait_path, {})
            out.append(g)
        out.sort(key=lambda g: g.vtbl_path)
        return out

    # ---------------------------------------------------------------------------------
    def _discover_groups(self):
        """Groups: ADTs implementing GetContainer whose container ADT is generated alongside (not CGlueTraitObj)."""
        out = {}
        getc = {}
        for im in self.impls:
            if im.get("trait") == TG + "GetContainer" and im.get("self_adt") in self.adts:
                cont = None
                for it in im["items"]:
                    if it["name"] == "ContType":
                        cont = it.get("ty", "")
                getc[im["self_adt"]] = cont
        for path, cont in getc.items():
            adt = self.adts[path]
            cpath = (cont or "").split("<")[0]
            if cpath not in self.adts or cpath == TG + "CGlueObjContainer":
                continue
            grp = out.setdefault(cpath, Group())
            grp.container = self.adts[cpath]
            grp.unit = adt["_unit"]
            fields = adt_fields(adt)
            names = [n for n, _ in fields]
            # base = the variant with the largest number of Option fields and all vtbl fields
            nopt = sum(1 for _, f in fields if f["ty"].startswith("std::option::Option<") or f["ty"].startswith("core::option::Option<"))
            grp.__dict__.setdefault("_cands", []).append((adt, names, nopt))
        opq = {}
        for im in self.impls:
            if im.get("trait") == TG + "Opaquable" and im.get("self_adt") in self.adts:
                for it in im["items"]:
                    if it["name"] == "OpaqueTarget":
                        opq[im["self_adt"]] = (it.get("ty", "").split("<")[0], im)
        self.opaquable_impls = opq
        for cpath, grp in list(out.items()):
            cands = grp._cands
            base = [c for c in cands if opq.get(c[0]["path"], (None,))[0] == c[0]["path"]]
            if len(base) != 1:
                del out[cpath]
                continue
            base = base[0]
            grp.base = base[0]
            grp.name = grp.base["name"]
            grp.mod = grp.base["path"].rsplit("::", 1)[0]
            for adt, names, nopt in cands:
                if adt is grp.base:
                    continue
                if opq.get(adt["path"], (None,))[0] == grp.base["path"]:
                    grp.withs[adt["name"]] = adt
                else:
                    grp.finals[adt["name"]] = adt
            base_v = [n for n in base[1] if n != "container"]
            for a in self.adts.values():
                if a["path"].rsplit("::", 1)[0] == grp.mod and a is not grp.base:
                    n = [x for x, _ in adt_fields(a)]
                    if n == base_v and a["name"] not in grp.withs and a["name"] not in grp.finals:
                        grp.vtables = a
        return sorted(out.values(), key=lambda g: g.base["path"])


def wrapper_trait_calls(w):
    """(trait path, method) of trait-method calls on the wrapped object type inside a C wrapper (incl. closures excluded)."""
    out = []
    for bb in w["body"]["blocks"]:
        t = bb["t"]
        if t["k"] != "call":
            continue
        c = t.get("callee")
        if not c or "trait" not in c:
            continue
        if c.get("self", "").endswith("as cglue::trait_group::CGlueObjBase>::ObjType"):
            out.append((c["trait"], c["name"]))
    return out
