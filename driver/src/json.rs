// Minimal JSON text builder (no dependencies).

pub fn q(s: &str) -> String {
    let mut o = String::with_capacity(s.len() + 2);
    o.push('"');
    for c in s.chars() {
        match c {
            '"' => o.push_str("\\\""),
            '\\' => o.push_str("\\\\"),
            '\n' => o.push_str("\\n"),
            '\r' => o.push_str("\\r"),
            '\t' => o.push_str("\\t"),
            c if (c as u32) < 0x20 => o.push_str(&format!("\\u{:04x}", c as u32)),
            c => o.push(c),
        }
    }
    o.push('"');
    o
}

pub fn arr(items: Vec<String>) -> String {
    let mut o = String::from("[");
    o.push_str(&items.join(","));
    o.push(']');
    o
}

pub fn obj(fields: Vec<(&str, String)>) -> String {
    let mut o = String::from("{");
    let mut first = true;
    for (k, v) in fields {
        if !first {
            o.push(',');
        }
        first = false;
        o.push_str(&q(k));
        o.push(':');
        o.push_str(&v);
    }
    o.push('}');
    o
}

pub fn b(v: bool) -> String {
    if v { "true".into() } else { "false".into() }
}

pub fn null() -> String {
    "null".into()
}

pub fn opt(v: Option<String>) -> String {
    v.unwrap_or_else(null)
}
