// cgv-driver: rustc_private fact extractor for the cglue static verification framework.
//
// Invoked as RUSTC_WRAPPER (argv[1] = path of the real rustc, dropped).  For crates named in
// CGV_CRATES it dumps, after analysis, one JSON-lines fact file into CGV_OUT and then lets the
// compilation continue; every other crate is compiled exactly as rustc would.
#![feature(rustc_private)]
#![allow(rustc::internal)]

extern crate rustc_abi;
extern crate rustc_driver;
extern crate rustc_hir;
extern crate rustc_infer;
extern crate rustc_interface;
extern crate rustc_middle;
extern crate rustc_session;
extern crate rustc_span;
extern crate rustc_trait_selection;

mod facts;
mod json;

use rustc_driver::{Callbacks, Compilation};
use rustc_interface::interface::Compiler;
use rustc_middle::ty::TyCtxt;

struct Cb {
    out: String,
    tag: String,
}

impl Callbacks for Cb {
    fn after_analysis<'tcx>(&mut self, _c: &Compiler, tcx: TyCtxt<'tcx>) -> Compilation {
        let text = facts::dump(tcx, &self.tag);
        // One write per process (parallel rustc processes must not interleave).
        std::fs::write(&self.out, text).expect("cgv-driver: cannot write fact file");
        Compilation::Continue
    }
}

struct NoCb;
impl Callbacks for NoCb {}

fn main() {
    let mut args: Vec<String> = std::env::args().collect();
    // wrapper mode: argv[1] is the real rustc
    if args.len() > 1 && (args[1].ends_with("rustc") || args[1].contains("/rustc")) {
        args.remove(1);
    }
    let mut crate_name = None;
    let mut is_test = false;
    let mut crate_type = String::from("bin");
    let mut meta = String::new();
    let mut i = 1;
    while i < args.len() {
        match args[i].as_str() {
            "--crate-name" => {
                crate_name = args.get(i + 1).cloned();
                i += 1;
            }
            "--test" => is_test = true,
            "--crate-type" => {
                crate_type = args.get(i + 1).cloned().unwrap_or_default();
                i += 1;
            }
            "-C" => {
                if let Some(v) = args.get(i + 1) {
                    if let Some(m) = v.strip_prefix("metadata=") {
                        meta = m.to_string();
                    }
                }
                i += 1;
            }
            s => {
                if let Some(m) = s.strip_prefix("-Cmetadata=") {
                    meta = m.to_string();
                }
            }
        }
        i += 1;
    }
    let wanted = std::env::var("CGV_CRATES").unwrap_or_default();
    let out_dir = std::env::var("CGV_OUT").unwrap_or_default();
    let analyse = match &crate_name {
        Some(n) => {
            !out_dir.is_empty()
                && n != "build_script_build"
                && wanted.split(',').any(|w| w == n)
                && !args.iter().any(|a| a == "--print" || a.starts_with("--print="))
        }
        None => false,
    };
    if analyse {
        let n = crate_name.unwrap();
        let kind = if is_test { "test".to_string() } else { crate_type.clone() };
        let tag = format!("{}-{}", n, kind);
        let out = format!("{}/{}-{}.jsonl", out_dir, tag, meta);
        let mut cb = Cb { out, tag };
        rustc_driver::run_compiler(&args, &mut cb);
    } else {
        rustc_driver::run_compiler(&args, &mut NoCb);
    }
}
