use crate::json::*;
use rustc_abi::{FieldsShape, Variants, FIRST_VARIANT};
use rustc_hir::def::DefKind;
use rustc_hir::def_id::{DefId, LocalDefId};
use rustc_infer::infer::TyCtxtInferExt;
use rustc_middle::mir::*;
use rustc_middle::ty::print::with_no_trimmed_paths;
use rustc_middle::ty::{self, GenericArgsRef, Instance, Ty, TyCtxt, TypeVisitableExt, TypingEnv};
use rustc_span::Span;
use rustc_trait_selection::infer::InferCtxtExt;

struct Cx<'tcx> {
    tcx: TyCtxt<'tcx>,
    send: Option<DefId>,
    sync: Option<DefId>,
    opaquable: Option<DefId>,
    opaque_target: Option<DefId>,
    into_fn: Option<DefId>,
    from_fn: Option<DefId>,
}

thread_local! {
    static CRATE: std::cell::RefCell<String> = std::cell::RefCell::new(String::new());
}

/// Replace the `crate::` prefix printed for local items by the crate's own name, so that paths
/// read the same whether an item is seen from its own crate or from a dependent one.
fn fix_crate(s: String) -> String {
    if !s.contains("crate::") {
        return s;
    }
    let name = CRATE.with(|c| c.borrow().clone());
    let bytes = s.as_bytes();
    let mut out = String::with_capacity(s.len() + 16);
    let mut i = 0;
    while i < bytes.len() {
        if s[i..].starts_with("crate::")
            && (i == 0 || !(bytes[i - 1].is_ascii_alphanumeric() || bytes[i - 1] == b'_'))
        {
            out.push_str(&name);
            out.push_str("::");
            i += 7;
        } else {
            let ch = s[i..].chars().next().unwrap();
            out.push(ch);
            i += ch.len_utf8();
        }
    }
    out
}

macro_rules! pp {
    ($e:expr) => {
        fix_crate(rustc_middle::ty::print::with_crate_prefix!(with_no_trimmed_paths!($e)))
    };
}

fn ty_s<'tcx>(ty: Ty<'tcx>) -> String {
    pp!(ty.to_string())
}

fn path_s<'tcx>(tcx: TyCtxt<'tcx>, did: DefId) -> String {
    pp!(tcx.def_path_str(did))
}

fn span_s<'tcx>(tcx: TyCtxt<'tcx>, sp: Span) -> String {
    let sm = tcx.sess.source_map();
    let lo = sm.lookup_char_pos(sp.lo());
    format!("{}:{}", lo.file.name.prefer_local_unconditionally(), lo.line)
}

fn span_line<'tcx>(tcx: TyCtxt<'tcx>, sp: Span) -> String {
    let sm = tcx.sess.source_map();
    sm.lookup_char_pos(sp.lo()).line.to_string()
}

fn macro_name(sp: Span) -> String {
    if sp.from_expansion() {
        let d = sp.ctxt().outer_expn_data();
        format!("{:?}", d.kind)
    } else {
        String::new()
    }
}

pub fn dump<'tcx>(tcx: TyCtxt<'tcx>, tag: &str) -> String {
    CRATE.with(|c| *c.borrow_mut() = tcx.crate_name(rustc_hir::def_id::LOCAL_CRATE).to_string());
    let mut cx = Cx {
        tcx,
        send: tcx.get_diagnostic_item(rustc_span::sym::Send),
        sync: tcx.lang_items().sync_trait(),
        opaquable: None,
        opaque_target: None,
        into_fn: None,
        from_fn: None,
    };
    if let Some(t) = tcx.get_diagnostic_item(rustc_span::sym::Into) {
        cx.into_fn = tcx.associated_item_def_ids(t).first().copied();
    }
    if let Some(t) = tcx.get_diagnostic_item(rustc_span::sym::From) {
        cx.from_fn = tcx.associated_item_def_ids(t).first().copied();
    }
    for t in tcx.all_traits_including_private() {
        if path_s(tcx, t).ends_with("trait_group::Opaquable") {
            cx.opaquable = Some(t);
            for &a in tcx.associated_item_def_ids(t) {
                if tcx.def_kind(a) == DefKind::AssocTy {
                    cx.opaque_target = Some(a);
                }
            }
        }
    }
    CRATE.with(|c| *c.borrow_mut() = tcx.crate_name(rustc_hir::def_id::LOCAL_CRATE).to_string());
    let mut lines: Vec<String> = Vec::new();
    let mut n_fn = 0usize;
    let mut n_adt = 0usize;
    let mut n_impl = 0usize;
    let mut n_trait = 0usize;
    let mut n_probe = 0usize;
    let items = tcx.hir_crate_items(());
    for ldid in items.definitions() {
        let did = ldid.to_def_id();
        match tcx.def_kind(did) {
            DefKind::Struct | DefKind::Enum | DefKind::Union => {
                lines.push(cx.adt_fact(did));
                n_adt += 1;
            }
            DefKind::Trait => {
                lines.push(cx.trait_fact(did));
                n_trait += 1;
            }
            DefKind::Impl { .. } => {
                lines.push(cx.impl_fact(did));
                n_impl += 1;
            }
            DefKind::TyAlias => {
                let p = path_s(tcx, did);
                if p.contains("probes::") {
                    lines.push(cx.probe_fact(did, &p));
                    n_probe += 1;
                }
            }
            DefKind::Fn | DefKind::AssocFn | DefKind::Closure => {
                if tcx.is_mir_available(did) {
                    lines.push(cx.fn_fact(ldid));
                    n_fn += 1;
                } else {
                    // trait method without default body etc.
                    lines.push(cx.decl_fact(ldid));
                }
            }
            _ => {}
        }
    }
    // closures and inline consts are not HIR owners: add the closures explicitly
    for ldid in items.nested_bodies() {
        let did = ldid.to_def_id();
        if tcx.def_kind(did) == DefKind::Closure && tcx.is_mir_available(did) {
            lines.push(cx.fn_fact(ldid));
            n_fn += 1;
        }
    }
    // ---- automatic probes: every local generic ADT with a local Opaquable impl is instantiated with the handle
    // types aliased in `probes::auto_handles` (AH_*) and the context aliased as AC_*; nothing is named by the corpus.
    {
        let mut handles: Vec<(String, Ty<'tcx>)> = vec![];
        let mut ctxs: Vec<(String, Ty<'tcx>)> = vec![];
        for ldid in items.definitions() {
            let did = ldid.to_def_id();
            if tcx.def_kind(did) == DefKind::TyAlias {
                let p = path_s(tcx, did);
                if p.contains("probes::auto_handles::") {
                    let name = tcx.item_name(did).to_string();
                    let ty = tcx.type_of(did).instantiate_identity().skip_norm_wip();
                    let ty = tcx.erase_and_anonymize_regions(ty);
                    if name.starts_with("AH_") {
                        handles.push((name, ty));
                    } else if name.starts_with("AC_") {
                        ctxs.push((name, ty));
                    }
                }
            }
        }
        if !handles.is_empty() && !ctxs.is_empty() {
            if let Some(op) = cx.opaquable {
                let mut seen: Vec<DefId> = Vec::new();
                for ldid in items.definitions() {
                    let did = ldid.to_def_id();
                    if !matches!(tcx.def_kind(did), DefKind::Impl { .. }) {
                        continue;
                    }
                    let Some(tr) = tcx.impl_opt_trait_ref(did) else { continue };
                    if tr.skip_binder().def_id != op {
                        continue;
                    }
                    let self_ty = tcx.type_of(did).instantiate_identity().skip_norm_wip();
                    let ty::Adt(adt, _) = self_ty.kind() else { continue };
                    if !adt.did().is_local() || seen.contains(&adt.did()) {
                        continue;
                    }
                    seen.push(adt.did());
                    let g = tcx.generics_of(adt.did());
                    let tparams: Vec<_> = g.own_params.iter().filter(|p| matches!(p.kind, ty::GenericParamDefKind::Type { .. })).collect();
                    if tparams.len() != 2 || g.own_params.iter().any(|p| matches!(p.kind, ty::GenericParamDefKind::Const { .. })) {
                        continue;
                    }
                    for (hn, hty) in &handles {
                        for (cn, cty) in &ctxs {
                            let mut k = 0;
                            let args = ty::GenericArgs::for_item(tcx, adt.did(), |param, _| match param.kind {
                                ty::GenericParamDefKind::Lifetime => tcx.lifetimes.re_erased.into(),
                                ty::GenericParamDefKind::Type { .. } => {
                                    k += 1;
                                    if k == 1 { (*hty).into() } else { (*cty).into() }
                                }
                                ty::GenericParamDefKind::Const { .. } => unreachable!(),
                            });
                            let ty = Ty::new_adt(tcx, *adt, args);
                            let name = format!("AUTO_{}_{}_{}", tcx.item_name(adt.did()), &hn[3..], &cn[3..]);
                            lines.push(cx.probe_ty_fact(ty, &name, &path_s(tcx, adt.did())));
                            n_probe += 1;
                        }
                    }
                }
            }
        }
    }
    // ---- slot probes: local single-parameter ADTs with MaybeUninit storage (RetTmp), instantiated at each AC_* context
    {
        let mut ctxs: Vec<(String, Ty<'tcx>)> = vec![];
        for ldid in items.definitions() {
            let did = ldid.to_def_id();
            if tcx.def_kind(did) == DefKind::TyAlias && path_s(tcx, did).contains("probes::auto_handles::") {
                let name = tcx.item_name(did).to_string();
                if name.starts_with("AC_") {
                    let ty = tcx.type_of(did).instantiate_identity().skip_norm_wip();
                    ctxs.push((name, tcx.erase_and_anonymize_regions(ty)));
                }
            }
        }
        if !ctxs.is_empty() {
            for ldid in items.definitions() {
                let did = ldid.to_def_id();
                if tcx.def_kind(did) != DefKind::Struct {
                    continue;
                }
                let adt = tcx.adt_def(did);
                let g = tcx.generics_of(did);
                let ntys = g.own_params.iter().filter(|p| matches!(p.kind, ty::GenericParamDefKind::Type { .. })).count();
                if ntys != 1 || g.own_params.iter().any(|p| matches!(p.kind, ty::GenericParamDefKind::Const { .. })) {
                    continue;
                }
                let has_slot = adt.all_fields().any(|f| {
                    let t = ty_s(tcx.type_of(f.did).instantiate_identity().skip_norm_wip());
                    t.contains("MaybeUninit<")
                });
                if !has_slot {
                    continue;
                }
                for (cn, cty) in &ctxs {
                    let args = ty::GenericArgs::for_item(tcx, did, |param, _| match param.kind {
                        ty::GenericParamDefKind::Lifetime => tcx.lifetimes.re_erased.into(),
                        _ => (*cty).into(),
                    });
                    let tenv = TypingEnv::fully_monomorphized();
                    let mut fields = vec![];
                    for f in adt.all_fields() {
                        let fty = f.ty(tcx, args);
                        let fty = tcx.try_normalize_erasing_regions(tenv, ty::Unnormalized::new(fty)).unwrap_or(fty);
                        // peel Cell<..> / MaybeUninit<..>
                        let mut inner = fty;
                        let mut is_slot = false;
                        loop {
                            match inner.kind() {
                                ty::Adt(a, aa) if tcx.def_path_str(a.did()).ends_with("cell::Cell") => {
                                    inner = aa.type_at(0);
                                }
                                ty::Adt(a, aa) if tcx.def_path_str(a.did()).ends_with("MaybeUninit") => {
                                    inner = aa.type_at(0);
                                    is_slot = true;
                                }
                                _ => break,
                            }
                        }
                        if is_slot {
                            fields.push(obj(vec![
                                ("name", q(f.name.as_str())),
                                ("field_ty", q(&ty_s(fty))),
                                ("stored_ty", q(&ty_s(inner))),
                                ("stored_needs_drop", b(inner.needs_drop(tcx, tenv))),
                                ("stored_shape", cx.shape(inner, 2, Some(tenv))),
                            ]));
                        }
                    }
                    lines.push(obj(vec![
                        ("k", q("slotprobe")),
                        ("adt", q(&path_s(tcx, did))),
                        ("name", q(tcx.item_name(did).as_str())),
                        ("ctx", q(&cn[3..])),
                        ("has_dtor", b(adt.destructor(tcx).is_some())),
                        ("fields", arr(fields)),
                    ]));
                }
            }
        }
    }
    let head = obj(vec![
        ("k", q("meta")),
        ("tag", q(tag)),
        ("crate", q(&tcx.crate_name(rustc_hir::def_id::LOCAL_CRATE).to_string())),
        ("fns", n_fn.to_string()),
        ("adts", n_adt.to_string()),
        ("impls", n_impl.to_string()),
        ("traits", n_trait.to_string()),
        ("probes", n_probe.to_string()),
    ]);
    let mut out = String::new();
    out.push_str(&head);
    out.push('\n');
    for l in lines {
        out.push_str(&l);
        out.push('\n');
    }
    out
}

impl<'tcx> Cx<'tcx> {
    fn implements(&self, tr: Option<DefId>, ty: Ty<'tcx>, tenv: TypingEnv<'tcx>) -> String {
        let Some(tr) = tr else { return null() };
        let (infcx, penv) = self.tcx.infer_ctxt().build_with_typing_env(tenv);
        b(infcx.type_implements_trait(tr, [ty], penv).must_apply_modulo_regions())
    }

    fn repr_s(&self, adt: ty::AdtDef<'tcx>) -> String {
        let r = adt.repr();
        let mut v = vec![];
        if r.c() {
            v.push(q("C"));
        }
        if r.transparent() {
            v.push(q("transparent"));
        }
        if r.simd() {
            v.push(q("simd"));
        }
        if let Some(i) = r.int {
            v.push(q(&format!("{:?}", i)));
        }
        if r.pack.is_some() {
            v.push(q("packed"));
        }
        if r.align.is_some() {
            v.push(q("align"));
        }
        arr(v)
    }

    fn attrs_s(&self, did: DefId) -> String {
        // inert / unparsed attributes such as `sabi(..)`; printed via Debug of their path + args.
        let mut v = vec![];
        for a in self.tcx.get_all_attrs(did) {
            if let rustc_hir::Attribute::Unparsed(item) = a {
                let path = item.path.segments.iter().map(|s| s.to_string()).collect::<Vec<_>>().join("::");
                let args = format!("{:?}", item.args);
                let mut args = args;
                if args.len() > 400 {
                    args.truncate(400);
                }
                v.push(arr(vec![q(&path), q(&args)]));
            }
        }
        arr(v)
    }

    fn generics_s(&self, did: DefId) -> String {
        let g = self.tcx.generics_of(did);
        let mut v = vec![];
        let mut cur = Some(g);
        let mut all = vec![];
        while let Some(g) = cur {
            all.push(g);
            cur = g.parent.map(|p| self.tcx.generics_of(p));
        }
        all.reverse();
        for g in all {
            for p in &g.own_params {
                let kind = match p.kind {
                    ty::GenericParamDefKind::Lifetime => "lt",
                    ty::GenericParamDefKind::Type { .. } => "ty",
                    ty::GenericParamDefKind::Const { .. } => "const",
                };
                v.push(arr(vec![q(p.name.as_str()), q(kind)]));
            }
        }
        arr(v)
    }

    fn has_non_lt_generics(&self, did: DefId) -> bool {
        let g = self.tcx.generics_of(did);
        let mut cur = Some(g);
        while let Some(g) = cur {
            if g.own_params.iter().any(|p| !matches!(p.kind, ty::GenericParamDefKind::Lifetime)) {
                return true;
            }
            cur = g.parent.map(|p| self.tcx.generics_of(p));
        }
        false
    }

    fn adt_fact(&self, did: DefId) -> String {
        let tcx = self.tcx;
        let adt = tcx.adt_def(did);
        let sp = tcx.def_span(did);
        let mut variants = vec![];
        let discrs: Vec<(rustc_abi::VariantIdx, ty::util::Discr<'tcx>)> =
            if adt.is_enum() { adt.discriminants(tcx).collect() } else { vec![] };
        for (vi, v) in adt.variants().iter_enumerated() {
            let mut fields = vec![];
            for f in v.fields.iter() {
                let fty = tcx.type_of(f.did).instantiate_identity().skip_norm_wip();
                fields.push(obj(vec![
                    ("name", q(f.name.as_str())),
                    ("ty", q(&ty_s(fty))),
                    ("vis", q(&format!("{:?}", f.vis).chars().take(40).collect::<String>())),
                    ("shape", self.shape(fty, 1, None)),
                ]));
            }
            let d = discrs.iter().find(|(i, _)| *i == vi).map(|(_, d)| d.val.to_string());
            variants.push(obj(vec![
                ("name", q(v.name.as_str())),
                ("discr", opt(d)),
                ("fields", arr(fields)),
            ]));
        }
        let mut layout = null();
        if !self.has_non_lt_generics(did) {
            let ty = tcx.type_of(did).instantiate_identity().skip_norm_wip();
            let ty = tcx.erase_and_anonymize_regions(ty);
            layout = self.shape(ty, 3, None);
        }
        obj(vec![
            ("k", q("adt")),
            ("path", q(&path_s(tcx, did))),
            ("name", q(tcx.item_name(did).as_str())),
            ("kind", q(if adt.is_enum() { "enum" } else if adt.is_union() { "union" } else { "struct" })),
            ("repr", self.repr_s(adt)),
            ("generics", self.generics_s(did)),
            ("variants", arr(variants)),
            ("has_dtor", b(adt.destructor(tcx).is_some())),
            ("attrs", self.attrs_s(did)),
            ("span", q(&span_s(tcx, sp))),
            ("exp", b(sp.from_expansion())),
            ("macro", q(&macro_name(sp))),
            ("vis", q(&format!("{:?}", tcx.visibility(did)).chars().take(40).collect::<String>())),
            ("layout", layout),
        ])
    }

    fn trait_fact(&self, did: DefId) -> String {
        let tcx = self.tcx;
        let mut items = vec![];
        for &a in tcx.associated_item_def_ids(did) {
            let ai = tcx.associated_item(a);
            let kind = match tcx.def_kind(a) {
                DefKind::AssocFn => "fn",
                DefKind::AssocTy => "type",
                DefKind::AssocConst { .. } => "const",
                _ => "other",
            };
            let mut f = vec![
                ("name", q(ai.name().as_str())),
                ("kind", q(kind)),
                ("has_default", b(ai.defaultness(tcx).has_value())),
                ("line", span_line(tcx, tcx.def_span(a))),
            ];
            if kind == "fn" {
                let sig = tcx.fn_sig(a).instantiate_identity().skip_norm_wip().skip_binder();
                f.push(("inputs", arr(sig.inputs().iter().map(|t| q(&ty_s(*t))).collect())));
                f.push(("output", q(&ty_s(sig.output()))));
                f.push(("has_self", b(ai.is_method())));
                f.push(("generics", self.generics_own_s(a)));
                f.push(("unsafe", b(sig.safety().is_unsafe())));
                f.push(("abi", q(&format!("{:?}", sig.abi()))));
            }
            items.push(obj(f));
        }
        let sp = tcx.def_span(did);
        obj(vec![
            ("k", q("trait")),
            ("path", q(&path_s(tcx, did))),
            ("name", q(tcx.item_name(did).as_str())),
            ("generics", self.generics_s(did)),
            ("items", arr(items)),
            ("span", q(&span_s(tcx, sp))),
            ("exp", b(sp.from_expansion())),
            ("unsafe", b(tcx.trait_def(did).safety.is_unsafe())),
        ])
    }

    fn generics_own_s(&self, did: DefId) -> String {
        let g = self.tcx.generics_of(did);
        let mut v = vec![];
        for p in &g.own_params {
            let kind = match p.kind {
                ty::GenericParamDefKind::Lifetime => "lt",
                ty::GenericParamDefKind::Type { .. } => "ty",
                ty::GenericParamDefKind::Const { .. } => "const",
            };
            v.push(arr(vec![q(p.name.as_str()), q(kind)]));
        }
        arr(v)
    }

    fn preds_s(&self, did: DefId) -> String {
        let preds = self.tcx.predicates_of(did);
        let mut v = vec![];
        for (p, _) in preds.predicates {
            v.push(q(&pp!(p.to_string())));
        }
        arr(v)
    }

    fn impl_fact(&self, did: DefId) -> String {
        let tcx = self.tcx;
        let sp = tcx.def_span(did);
        let self_ty = tcx.type_of(did).instantiate_identity().skip_norm_wip();
        let mut f = vec![
            ("k", q("impl")),
            ("path", q(&path_s(tcx, did))),
            ("self_ty", q(&ty_s(self_ty))),
            ("generics", self.generics_s(did)),
            ("preds", self.preds_s(did)),
            ("span", q(&span_s(tcx, sp))),
            ("exp", b(sp.from_expansion())),
            ("macro", q(&macro_name(sp))),
        ];
        if let ty::Adt(a, _) = self_ty.kind() {
            f.push(("self_adt", q(&path_s(tcx, a.did()))));
        }
        if let Some(tr) = tcx.impl_opt_trait_ref(did) {
            let tr = tr.instantiate_identity().skip_norm_wip();
            f.push(("trait", q(&path_s(tcx, tr.def_id))));
            f.push(("trait_ref", q(&pp!(tr.to_string()))));
            f.push(("trait_args", arr(tr.args.iter().map(|a| q(&pp!(a.to_string()))).collect())));
            let hdr = tcx.impl_trait_header(did);
            f.push(("unsafe", b(hdr.safety.is_unsafe())));
            f.push(("polarity", q(&format!("{:?}", hdr.polarity))));
        } else {
            f.push(("trait", null()));
        }
        let mut items = vec![];
        for &a in tcx.associated_item_def_ids(did) {
            let ai = tcx.associated_item(a);
            let mut e = vec![("name", q(ai.name().as_str())), ("path", q(&path_s(tcx, a)))];
            match tcx.def_kind(a) {
                DefKind::AssocTy => {
                    e.push(("kind", q("type")));
                    e.push(("ty", q(&ty_s(tcx.type_of(a).instantiate_identity().skip_norm_wip()))));
                }
                DefKind::AssocFn => e.push(("kind", q("fn"))),
                _ => e.push(("kind", q("const"))),
            }
            items.push(obj(e));
        }
        f.push(("items", arr(items)));
        obj(f)
    }

    // ----------------------------------------------------------------------------------------
    // type shapes / layouts
    // ----------------------------------------------------------------------------------------

    fn layout_sa(&self, ty: Ty<'tcx>, tenv: TypingEnv<'tcx>) -> Option<(u64, u64)> {
        let l = self.tcx.layout_of(tenv.as_query_input(ty)).ok()?;
        Some((l.size.bytes(), l.align.abi.bytes()))
    }

    fn fnsig_shape(&self, sig: ty::PolyFnSig<'tcx>, depth: u32, tenv: Option<TypingEnv<'tcx>>) -> String {
        let s = sig.skip_binder();
        obj(vec![
            ("k", q("fnptr")),
            ("abi", q(&format!("{:?}", s.abi()))),
            ("unsafe", b(s.safety().is_unsafe())),
            ("variadic", b(s.c_variadic())),
            ("inputs", arr(s.inputs().iter().map(|t| self.shape(*t, depth.saturating_sub(1).min(1), tenv)).collect())),
            ("output", self.shape(s.output(), depth.saturating_sub(1).min(1), tenv)),
        ])
    }

    /// Structural description of a type.  `tenv` = Some(..) only for monomorphic types, then
    /// sizes/offsets are included.
    fn shape(&self, ty: Ty<'tcx>, depth: u32, tenv: Option<TypingEnv<'tcx>>) -> String {
        let tcx = self.tcx;
        let mut f: Vec<(&str, String)> = vec![("ty", q(&ty_s(ty)))];
        let tenv = match tenv {
            Some(t) => Some(t),
            None => {
                if !ty.has_param() && !ty.has_aliases() && !ty.has_infer() {
                    Some(TypingEnv::fully_monomorphized())
                } else {
                    None
                }
            }
        };
        if let Some(te) = tenv {
            if let Some((s, a)) = self.layout_sa(ty, te) {
                f.push(("size", s.to_string()));
                f.push(("align", a.to_string()));
            }
        }
        match ty.kind() {
            ty::Bool => f.push(("k", q("bool"))),
            ty::Char => f.push(("k", q("char"))),
            ty::Int(i) => {
                f.push(("k", q("int")));
                f.push(("name", q(i.name_str())));
            }
            ty::Uint(i) => {
                f.push(("k", q("uint")));
                f.push(("name", q(i.name_str())));
            }
            ty::Float(i) => {
                f.push(("k", q("float")));
                f.push(("name", q(i.name_str())));
            }
            ty::RawPtr(t, m) => {
                f.push(("k", q("ptr")));
                f.push(("mut", b(m.is_mut())));
                f.push(("to", q(&ty_s(*t))));
                f.push(("to_kind", q(kind_name(*t))));
            }
            ty::Ref(_, t, m) => {
                f.push(("k", q("ref")));
                f.push(("mut", b(m.is_mut())));
                f.push(("to", q(&ty_s(*t))));
                f.push(("to_kind", q(kind_name(*t))));
                if depth > 0 {
                    if let ty::Adt(..) = t.kind() {
                        // one level through references is enough for vtable pointers
                        f.push(("to_shape", self.shape(*t, depth - 1, tenv)));
                    }
                }
            }
            ty::FnPtr(sig_tys, hdr) => {
                let sig = sig_tys.with(*hdr);
                return {
                    let mut s = self.fnsig_shape(sig, depth, tenv);
                    // merge ty/size into the fnptr object
                    s.pop();
                    for (k, v) in f {
                        s.push(',');
                        s.push_str(&q(k));
                        s.push(':');
                        s.push_str(&v);
                    }
                    s.push('}');
                    s
                };
            }
            ty::FnDef(..) => f.push(("k", q("fndef"))),
            ty::Never => f.push(("k", q("never"))),
            ty::Str => f.push(("k", q("str"))),
            ty::Slice(t) => {
                f.push(("k", q("slice")));
                f.push(("of", q(&ty_s(*t))));
            }
            ty::Array(t, n) => {
                f.push(("k", q("array")));
                f.push(("of", q(&ty_s(*t))));
                f.push(("n", q(&pp!(n.to_string()))));
            }
            ty::Tuple(ts) => {
                f.push(("k", q("tuple")));
                f.push(("n", ts.len().to_string()));
                if depth > 0 {
                    f.push(("elems", arr(ts.iter().map(|t| self.shape(t, depth - 1, tenv)).collect())));
                }
            }
            ty::Dynamic(..) => f.push(("k", q("dyn"))),
            ty::Param(_) => f.push(("k", q("param"))),
            ty::Alias(..) => f.push(("k", q("alias"))),
            ty::Closure(..) => f.push(("k", q("closure"))),
            ty::Adt(adt, args) => {
                f.push(("k", q(if adt.is_enum() { "enum" } else if adt.is_union() { "union" } else { "struct" })));
                f.push(("path", q(&path_s(tcx, adt.did()))));
                f.push(("repr", self.repr_s(*adt)));
                f.push(("args", arr(args.iter().map(|a| q(&pp!(a.to_string()))).collect())));
                f.push(("phantom", b(adt.is_phantom_data())));
                if depth > 0 {
                    let layout = tenv.and_then(|te| tcx.layout_of(te.as_query_input(ty)).ok());
                    let discrs: Vec<(rustc_abi::VariantIdx, ty::util::Discr<'tcx>)> =
                        if adt.is_enum() { adt.discriminants(tcx).collect() } else { vec![] };
                    let mut variants = vec![];
                    for (vi, v) in adt.variants().iter_enumerated() {
                        let mut fields = vec![];
                        for (fi, fd) in v.fields.iter_enumerated() {
                            let fty = fd.ty(tcx, args);
                            let fty = match tenv {
                                Some(te) => tcx
                                    .try_normalize_erasing_regions(te, ty::Unnormalized::new(fty))
                                    .unwrap_or(fty),
                                None => fty,
                            };
                            let mut e = vec![("name", q(fd.name.as_str())), ("shape", self.shape(fty, depth - 1, tenv))];
                            if let Some(l) = &layout {
                                let off = match &l.variants {
                                    Variants::Single { .. } => {
                                        if vi == FIRST_VARIANT || !adt.is_enum() {
                                            match &l.fields {
                                                FieldsShape::Arbitrary { offsets, .. } => {
                                                    offsets.get(fi).map(|o| o.bytes())
                                                }
                                                FieldsShape::Union(_) => Some(0),
                                                _ => None,
                                            }
                                        } else {
                                            None
                                        }
                                    }
                                    Variants::Multiple { variants, .. } => match &variants[vi].fields {
                                        FieldsShape::Arbitrary { offsets, .. } => offsets.get(fi).map(|o| o.bytes()),
                                        _ => None,
                                    },
                                    _ => None,
                                };
                                if let Some(o) = off {
                                    e.push(("off", o.to_string()));
                                }
                            }
                            fields.push(obj(e));
                        }
                        let d = discrs.iter().find(|(i, _)| *i == vi).map(|(_, d)| d.val.to_string());
                        variants.push(obj(vec![
                            ("name", q(v.name.as_str())),
                            ("discr", opt(d)),
                            ("fields", arr(fields)),
                        ]));
                    }
                    f.push(("variants", arr(variants)));
                }
            }
            _ => f.push(("k", q("other"))),
        }
        obj(f)
    }

    fn probe_fact(&self, did: DefId, path: &str) -> String {
        let tcx = self.tcx;
        let ty0 = tcx.type_of(did).instantiate_identity().skip_norm_wip();
        let ty0 = tcx.erase_and_anonymize_regions(ty0);
        let name = tcx.item_name(did).to_string();
        let mut s = self.probe_ty_fact(ty0, &name, path);
        // append the source line
        s.pop();
        s.push_str(&format!(",\"line\":{}}}", span_line(tcx, tcx.def_span(did))));
        s
    }

    fn probe_ty_fact(&self, ty0: Ty<'tcx>, name: &str, path: &str) -> String {
        let tcx = self.tcx;
        let tenv = TypingEnv::fully_monomorphized();
        let mut f = vec![("k", q("probe")), ("path", q(path)), ("name", q(name))];
        if ty0.has_param() {
            f.push(("error", q("generic probe")));
            return obj(f);
        }
        let ty = match tcx.try_normalize_erasing_regions(tenv, ty::Unnormalized::new(ty0)) {
            Ok(t) => t,
            Err(_) => {
                f.push(("error", q("cannot normalize")));
                f.push(("ty", q(&ty_s(ty0))));
                return obj(f);
            }
        };
        f.push(("ty", q(&ty_s(ty))));
        f.push(("send", self.implements(self.send, ty, tenv)));
        f.push(("sync", self.implements(self.sync, ty, tenv)));
        f.push(("needs_drop", b(ty.needs_drop(tcx, tenv))));
        f.push(("shape", self.shape(ty, 4, Some(tenv))));
        if let (Some(op), Some(ot)) = (self.opaquable, self.opaque_target) {
            let is = {
                let (infcx, penv) = tcx.infer_ctxt().build_with_typing_env(tenv);
                infcx.type_implements_trait(op, [ty], penv).must_apply_modulo_regions()
            };
            f.push(("opaquable", b(is)));
            if is {
                let proj = Ty::new_projection(tcx, ot, [ty]);
                if let Ok(t) = tcx.try_normalize_erasing_regions(tenv, ty::Unnormalized::new(proj)) {
                    f.push((
                        "target",
                        obj(vec![
                            ("ty", q(&ty_s(t))),
                            ("send", self.implements(self.send, t, tenv)),
                            ("sync", self.implements(self.sync, t, tenv)),
                            ("needs_drop", b(t.needs_drop(tcx, tenv))),
                            ("shape", self.shape(t, 4, Some(tenv))),
                        ]),
                    ));
                }
            }
        }
        obj(f)
    }

    // ----------------------------------------------------------------------------------------
    // functions and MIR
    // ----------------------------------------------------------------------------------------

    fn fn_header(&self, ldid: LocalDefId) -> Vec<(&'static str, String)> {
        let tcx = self.tcx;
        let did = ldid.to_def_id();
        let sp = tcx.def_span(did);
        let kind = tcx.def_kind(did);
        let mut f = vec![
            ("path", q(&path_s(tcx, did))),
            ("def_kind", q(&format!("{:?}", kind))),
            ("span", q(&span_s(tcx, sp))),
            ("exp", b(sp.from_expansion())),
            ("macro", q(&macro_name(sp))),
            ("generics", self.generics_s(did)),
        ];
        if kind != DefKind::Closure {
            f.push(("name", q(tcx.item_name(did).as_str())));
            let sig = tcx.fn_sig(did).instantiate_identity().skip_norm_wip().skip_binder();
            f.push(("abi", q(&format!("{:?}", sig.abi()))));
            f.push(("unsafe", b(sig.safety().is_unsafe())));
            f.push(("inputs", arr(sig.inputs().iter().map(|t| q(&ty_s(*t))).collect())));
            f.push(("output", q(&ty_s(sig.output()))));
            f.push(("vis", q(&format!("{:?}", tcx.visibility(did)).chars().take(40).collect::<String>())));
            f.push(("preds", self.preds_s(did)));
        } else {
            f.push(("name", q("{closure}")));
        }
        let parent = tcx.parent(did);
        f.push(("parent", q(&path_s(tcx, parent))));
        f.push(("parent_kind", q(&format!("{:?}", tcx.def_kind(parent)))));
        if let DefKind::Impl { .. } = tcx.def_kind(parent) {
            let self_ty = tcx.type_of(parent).instantiate_identity().skip_norm_wip();
            f.push(("impl_self", q(&ty_s(self_ty))));
            if let ty::Adt(a, _) = self_ty.kind() {
                f.push(("impl_self_adt", q(&path_s(tcx, a.did()))));
            }
            if let Some(tr) = tcx.impl_opt_trait_ref(parent) {
                let tr = tr.instantiate_identity().skip_norm_wip();
                f.push(("impl_trait", q(&path_s(tcx, tr.def_id))));
                f.push(("impl_trait_ref", q(&pp!(tr.to_string()))));
            }
        }
        if let DefKind::Trait = tcx.def_kind(parent) {
            f.push(("of_trait", q(&path_s(tcx, parent))));
        }
        f
    }

    fn decl_fact(&self, ldid: LocalDefId) -> String {
        let mut f = vec![("k", q("decl"))];
        f.extend(self.fn_header(ldid));
        obj(f)
    }

    fn fn_fact(&self, ldid: LocalDefId) -> String {
        let tcx = self.tcx;
        let did = ldid.to_def_id();
        let mut f = vec![("k", q("fn"))];
        f.extend(self.fn_header(ldid));
        let body = tcx.optimized_mir(did);
        f.push(("body", self.body_j(body, did)));
        let promoted = tcx.promoted_mir(did);
        f.push(("promoted", arr(promoted.iter().map(|b| self.body_j(b, did)).collect())));
        obj(f)
    }

    fn body_j(&self, body: &Body<'tcx>, owner: DefId) -> String {
        let tcx = self.tcx;
        let tenv = TypingEnv::post_analysis(tcx, owner);
        let mut names: Vec<Option<String>> = vec![None; body.local_decls.len()];
        for v in &body.var_debug_info {
            if let VarDebugInfoContents::Place(p) = v.value {
                if p.projection.is_empty() {
                    names[p.local.as_usize()] = Some(v.name.to_string());
                }
            }
        }
        let mut locals = vec![];
        for (i, d) in body.local_decls.iter().enumerate() {
            let mut e = vec![("ty", q(&ty_s(d.ty)))];
            if let Some(n) = &names[i] {
                e.push(("name", q(n)));
            }
            locals.push(obj(e));
        }
        let mut blocks = vec![];
        for bb in body.basic_blocks.iter() {
            let mut stmts = vec![];
            for s in &bb.statements {
                if let Some(j) = self.stmt_j(body, s) {
                    stmts.push(j);
                }
            }
            let term = self.term_j(body, bb.terminator(), tenv);
            blocks.push(obj(vec![("c", b(bb.is_cleanup)), ("s", arr(stmts)), ("t", term)]));
        }
        obj(vec![
            ("argc", body.arg_count.to_string()),
            ("locals", arr(locals)),
            ("blocks", arr(blocks)),
        ])
    }

    fn place_j(&self, body: &Body<'tcx>, p: Place<'tcx>) -> String {
        let tcx = self.tcx;
        let mut pty = rustc_middle::mir::PlaceTy::from_ty(body.local_decls[p.local].ty);
        let mut projs = vec![];
        for elem in p.projection.iter() {
            match elem {
                ProjectionElem::Deref => projs.push(arr(vec![q("d")])),
                ProjectionElem::Field(fi, _) => {
                    let name = match pty.ty.kind() {
                        ty::Adt(def, _) => {
                            let v = pty.variant_index.unwrap_or(FIRST_VARIANT);
                            def.variant(v).fields[fi].name.to_string()
                        }
                        _ => fi.index().to_string(),
                    };
                    projs.push(arr(vec![q("f"), fi.index().to_string(), q(&name)]));
                }
                ProjectionElem::Downcast(name, vi) => {
                    let n = name.map(|s| s.to_string()).unwrap_or_default();
                    projs.push(arr(vec![q("dc"), q(&n), vi.index().to_string()]));
                }
                ProjectionElem::Index(l) => projs.push(arr(vec![q("i"), l.as_usize().to_string()])),
                ProjectionElem::ConstantIndex { offset, from_end, .. } => {
                    projs.push(arr(vec![q("ci"), offset.to_string(), b(from_end)]))
                }
                ProjectionElem::Subslice { .. } => projs.push(arr(vec![q("ss")])),
                _ => projs.push(arr(vec![q("oc")])),
            }
            pty = pty.projection_ty(tcx, elem);
        }
        obj(vec![("l", p.local.as_usize().to_string()), ("p", arr(projs))])
    }

    fn fn_ref_j(&self, did: DefId, args: GenericArgsRef<'tcx>, tenv: TypingEnv<'tcx>) -> String {
        let tcx = self.tcx;
        let mut f = vec![
            ("path", q(&path_s(tcx, did))),
            ("name", q(tcx.opt_item_name(did).map(|s| s.to_string()).unwrap_or_default().as_str())),
            ("args", arr(args.iter().map(|a| q(&pp!(a.to_string()))).collect())),
            ("krate", q(tcx.crate_name(did.krate).as_str())),
        ];
        if let Some(tr) = tcx.trait_of_assoc(did) {
            f.push(("trait", q(&path_s(tcx, tr))));
            if let Some(a) = args.get(0) {
                f.push(("self", q(&pp!(a.to_string()))));
            }
        }
        if let Some(im) = tcx.impl_of_assoc(did) {
            f.push(("impl_self", q(&ty_s(tcx.type_of(im).instantiate_identity().skip_norm_wip()))));
            if let Some(tr) = tcx.impl_opt_trait_ref(im) {
                f.push(("impl_trait", q(&path_s(tcx, tr.skip_binder().def_id))));
            }
        }
        if matches!(tcx.def_kind(did), DefKind::Fn | DefKind::AssocFn) {
            let sig = tcx.fn_sig(did).instantiate_identity().skip_norm_wip().skip_binder();
            f.push(("abi", q(&format!("{:?}", sig.abi()))));
            f.push(("unsafe", b(sig.safety().is_unsafe())));
        }
        // resolve through the trait system where possible
        let resolved = std::panic::catch_unwind(std::panic::AssertUnwindSafe(|| {
            Instance::try_resolve(tcx, tenv, did, args)
        }));
        // `Into::into` resolves to the blanket impl; report the `From` impl behind it as well.
        if Some(did) == self.into_fn {
            if let (Some(from_fn), Some(t), Some(u)) = (self.from_fn, args.get(0), args.get(1)) {
                let fargs = tcx.mk_args(&[*u, *t]);
                let r = std::panic::catch_unwind(std::panic::AssertUnwindSafe(|| {
                    Instance::try_resolve(tcx, tenv, from_fn, fargs)
                }));
                if let Ok(Ok(Some(inst))) = r {
                    let rd = inst.def_id();
                    let mut e = vec![("path", q(&path_s(tcx, rd)))];
                    if let Some(im) = tcx.impl_of_assoc(rd) {
                        e.push(("impl_path", q(&path_s(tcx, im))));
                        e.push(("krate", q(tcx.crate_name(rd.krate).as_str())));
                    }
                    f.push(("via_from", obj(e)));
                }
            }
        }
        if let Ok(Ok(Some(inst))) = resolved {
            let rd = inst.def_id();
            let mut r = vec![
                ("path", q(&path_s(tcx, rd))),
                ("kind", q(&format!("{:?}", inst.def).chars().take(60).collect::<String>())),
                ("args", arr(inst.args.iter().map(|a| q(&pp!(a.to_string()))).collect())),
            ];
            if let Some(im) = tcx.impl_of_assoc(rd) {
                r.push(("impl_self", q(&ty_s(tcx.type_of(im).instantiate_identity().skip_norm_wip()))));
                r.push(("impl_path", q(&path_s(tcx, im))));
            }
            f.push(("res", obj(r)));
        }
        obj(f)
    }

    fn const_j(&self, c: &ConstOperand<'tcx>, tenv: TypingEnv<'tcx>) -> String {
        let tcx = self.tcx;
        let ty = c.const_.ty();
        let mut f = vec![("ty", q(&ty_s(ty)))];
        match ty.kind() {
            ty::FnDef(did, args) => {
                f.push(("fn", self.fn_ref_j(*did, args, tenv)));
            }
            _ => {
                if let Some(s) = c.const_.try_to_scalar_int() {
                    f.push(("v", q(&format!("{:?}", s))));
                    if ty.is_integral() || ty.is_bool() || ty.is_char() {
                        let bits = s.to_bits(s.size());
                        let val: i128 = if ty.is_signed() {
                            let sz = s.size().bits();
                            let sh = 128 - sz as u32;
                            ((bits as i128) << sh) >> sh
                        } else {
                            bits as i128
                        };
                        f.push(("int", val.to_string()));
                    }
                } else if let Const::Val(cv, _) = c.const_ {
                    if let ty::Ref(_, inner, _) = ty.kind() {
                        if inner.is_str() {
                            if let Some(bytes) = cv.try_get_slice_bytes_for_diagnostics(tcx) {
                                f.push(("str", q(&String::from_utf8_lossy(bytes))));
                            }
                        }
                    }
                    if matches!(cv, ConstValue::ZeroSized) {
                        f.push(("zst", b(true)));
                    }
                } else if let Const::Unevaluated(u, _) = c.const_ {
                    f.push(("uneval", q(&path_s(tcx, u.def))));
                    if let Some(p) = u.promoted {
                        f.push(("promoted", p.as_usize().to_string()));
                    } else if u.args.is_empty() && (ty.is_integral() || ty.is_bool()) {
                        // a named, non-generic integer constant (`const END: i32 = 1`) is the same operand as its literal value
                        if let Some(s) = c.const_.try_eval_scalar_int(tcx, tenv) {
                            let bits = s.to_bits(s.size());
                            let val: i128 = if ty.is_signed() {
                                let sh = 128 - s.size().bits() as u32;
                                ((bits as i128) << sh) >> sh
                            } else {
                                bits as i128
                            };
                            f.push(("int", val.to_string()));
                        }
                    }
                }
            }
        }
        obj(f)
    }

    fn op_j(&self, body: &Body<'tcx>, o: &Operand<'tcx>, tenv: TypingEnv<'tcx>) -> String {
        match o {
            Operand::Copy(p) => obj(vec![("c", self.place_j(body, *p))]),
            Operand::Move(p) => obj(vec![("m", self.place_j(body, *p))]),
            Operand::Constant(c) => obj(vec![("k", self.const_j(c, tenv))]),
            #[allow(unreachable_patterns)]
            _ => obj(vec![("other", q("operand"))]),
        }
    }

    fn rvalue_j(&self, body: &Body<'tcx>, r: &Rvalue<'tcx>, tenv: TypingEnv<'tcx>) -> String {
        let tcx = self.tcx;
        match r {
            Rvalue::Use(o, ..) => obj(vec![("k", q("use")), ("o", self.op_j(body, o, tenv))]),
            Rvalue::Repeat(o, _) => obj(vec![("k", q("repeat")), ("o", self.op_j(body, o, tenv))]),
            Rvalue::Ref(_, bk, p) => obj(vec![
                ("k", q("ref")),
                ("bk", q(match bk {
                    BorrowKind::Shared => "shared",
                    BorrowKind::Mut { .. } => "mut",
                    _ => "fake",
                })),
                ("p", self.place_j(body, *p)),
            ]),
            Rvalue::ThreadLocalRef(d) => obj(vec![("k", q("tlref")), ("path", q(&path_s(tcx, *d)))]),
            Rvalue::RawPtr(kind, p) => obj(vec![
                ("k", q("rawptr")),
                ("mut", b(matches!(kind, RawPtrKind::Mut))),
                ("p", self.place_j(body, *p)),
            ]),
            Rvalue::Cast(ck, o, ty) => obj(vec![
                ("k", q("cast")),
                ("ck", q(&format!("{:?}", ck))),
                ("o", self.op_j(body, o, tenv)),
                ("ty", q(&ty_s(*ty))),
                ("from_ty", q(&ty_s(o.ty(&body.local_decls, tcx)))),
            ]),
            Rvalue::BinaryOp(op, ab) => obj(vec![
                ("k", q("bin")),
                ("op", q(&format!("{:?}", op))),
                ("a", self.op_j(body, &ab.0, tenv)),
                ("b", self.op_j(body, &ab.1, tenv)),
            ]),
            Rvalue::UnaryOp(op, o) => obj(vec![
                ("k", q("un")),
                ("op", q(&format!("{:?}", op))),
                ("o", self.op_j(body, o, tenv)),
            ]),
            Rvalue::Discriminant(p) => obj(vec![("k", q("discr")), ("p", self.place_j(body, *p))]),
            Rvalue::Aggregate(kind, ops) => {
                let mut f = vec![("k", q("agg"))];
                match &**kind {
                    AggregateKind::Adt(did, vi, args, _, active) => {
                        let adt = tcx.adt_def(*did);
                        let v = adt.variant(*vi);
                        f.push(("ak", q("adt")));
                        f.push(("adt", q(&path_s(tcx, *did))));
                        f.push(("variant", q(v.name.as_str())));
                        f.push(("fields", arr(v.fields.iter().map(|fd| q(fd.name.as_str())).collect())));
                        f.push(("args", arr(args.iter().map(|a| q(&pp!(a.to_string()))).collect())));
                        if let Some(a) = active {
                            f.push(("active", a.index().to_string()));
                        }
                    }
                    AggregateKind::Tuple => f.push(("ak", q("tuple"))),
                    AggregateKind::Array(_) => f.push(("ak", q("array"))),
                    AggregateKind::Closure(did, _) => {
                        f.push(("ak", q("closure")));
                        f.push(("closure", q(&path_s(tcx, *did))));
                    }
                    AggregateKind::RawPtr(..) => f.push(("ak", q("rawptr"))),
                    _ => f.push(("ak", q("other"))),
                }
                f.push(("ops", arr(ops.iter().map(|o| self.op_j(body, o, tenv)).collect())));
                obj(f)
            }
            Rvalue::CopyForDeref(p) => obj(vec![("k", q("use")), ("o", obj(vec![("c", self.place_j(body, *p))])), ("cfd", b(true))]),
            Rvalue::WrapUnsafeBinder(o, _) => obj(vec![("k", q("use")), ("o", self.op_j(body, o, tenv))]),
            #[allow(unreachable_patterns)]
            other => obj(vec![("k", q("other")), ("dbg", q(&format!("{:?}", other).chars().take(200).collect::<String>()))]),
        }
    }

    fn stmt_j(&self, body: &Body<'tcx>, s: &Statement<'tcx>) -> Option<String> {
        let tcx = self.tcx;
        let tenv = TypingEnv::post_analysis(tcx, body.source.def_id());
        let line = span_line(tcx, s.source_info.span);
        match &s.kind {
            StatementKind::Assign(bx) => {
                let (p, r) = &**bx;
                Some(obj(vec![
                    ("k", q("assign")),
                    ("p", self.place_j(body, *p)),
                    ("r", self.rvalue_j(body, r, tenv)),
                    ("line", line),
                    ("exp", b(s.source_info.span.from_expansion())),
                ]))
            }
            StatementKind::SetDiscriminant { place, variant_index } => Some(obj(vec![
                ("k", q("setdiscr")),
                ("p", self.place_j(body, **place)),
                ("v", variant_index.index().to_string()),
                ("line", line),
            ])),
            StatementKind::Intrinsic(i) => Some(obj(vec![
                ("k", q("intrinsic")),
                ("dbg", q(&format!("{:?}", i).chars().take(200).collect::<String>())),
                ("line", line),
            ])),
            _ => None,
        }
    }

    fn term_j(&self, body: &Body<'tcx>, t: &Terminator<'tcx>, tenv: TypingEnv<'tcx>) -> String {
        let tcx = self.tcx;
        let line = span_line(tcx, t.source_info.span);
        let unwind_j = |u: &UnwindAction| -> String {
            match u {
                UnwindAction::Cleanup(bb) => bb.as_usize().to_string(),
                _ => null(),
            }
        };
        match &t.kind {
            TerminatorKind::Goto { target } => obj(vec![("k", q("goto")), ("t", target.as_usize().to_string())]),
            TerminatorKind::SwitchInt { discr, targets } => {
                let mut tv = vec![];
                for (v, bb) in targets.iter() {
                    tv.push(arr(vec![q(&v.to_string()), bb.as_usize().to_string()]));
                }
                obj(vec![
                    ("k", q("switch")),
                    ("o", self.op_j(body, discr, tenv)),
                    ("ty", q(&ty_s(discr.ty(&body.local_decls, tcx)))),
                    ("targets", arr(tv)),
                    ("otherwise", targets.otherwise().as_usize().to_string()),
                    ("line", line),
                ])
            }
            TerminatorKind::UnwindResume => obj(vec![("k", q("resume"))]),
            TerminatorKind::UnwindTerminate(_) => obj(vec![("k", q("terminate"))]),
            TerminatorKind::Return => obj(vec![("k", q("return"))]),
            TerminatorKind::Unreachable => obj(vec![("k", q("unreachable"))]),
            TerminatorKind::Drop { place, target, unwind, .. } => obj(vec![
                ("k", q("drop")),
                ("p", self.place_j(body, *place)),
                ("ty", q(&ty_s(place.ty(&body.local_decls, tcx).ty))),
                ("t", target.as_usize().to_string()),
                ("u", unwind_j(unwind)),
                ("line", line),
            ]),
            TerminatorKind::Call { func, args, destination, target, unwind, fn_span, .. } => {
                let f_j = if func.const_fn_def().is_some() {
                    obj(vec![("fnconst", b(true))])
                } else {
                    self.op_j(body, func, tenv)
                };
                let mut f = vec![
                    ("k", q("call")),
                    ("f", f_j),
                    ("args", arr(args.iter().map(|a| self.op_j(body, &a.node, tenv)).collect())),
                    ("d", self.place_j(body, *destination)),
                    ("t", target.map(|b| b.as_usize().to_string()).unwrap_or_else(null)),
                    ("u", unwind_j(unwind)),
                    ("line", line),
                    ("exp", b(fn_span.from_expansion())),
                    ("dty", q(&ty_s(destination.ty(&body.local_decls, tcx).ty))),
                ];
                if func.const_fn_def().is_none() {
                    f.push(("fty", q(&ty_s(func.ty(&body.local_decls, tcx)))));
                }
                if let Some((did, gargs)) = func.const_fn_def() {
                    f.push(("callee", self.fn_ref_j(did, gargs, tenv)));
                }
                obj(f)
            }
            TerminatorKind::TailCall { func, args, .. } => obj(vec![
                ("k", q("tailcall")),
                ("f", self.op_j(body, func, tenv)),
                ("args", arr(args.iter().map(|a| self.op_j(body, &a.node, tenv)).collect())),
            ]),
            TerminatorKind::Assert { cond, expected, msg, target, unwind } => obj(vec![
                ("k", q("assert")),
                ("c", self.op_j(body, cond, tenv)),
                ("expected", b(*expected)),
                ("msg", q(&format!("{:?}", msg).chars().take(120).collect::<String>())),
                ("t", target.as_usize().to_string()),
                ("u", unwind_j(unwind)),
                ("line", line),
            ]),
            TerminatorKind::FalseEdge { real_target, .. } => {
                obj(vec![("k", q("goto")), ("t", real_target.as_usize().to_string())])
            }
            TerminatorKind::FalseUnwind { real_target, .. } => {
                obj(vec![("k", q("goto")), ("t", real_target.as_usize().to_string())])
            }
            other => obj(vec![("k", q("other")), ("dbg", q(&format!("{:?}", other).chars().take(200).collect::<String>()))]),
        }
    }
}

fn kind_name<'tcx>(t: Ty<'tcx>) -> &'static str {
    match t.kind() {
        ty::Adt(a, _) => {
            if a.is_enum() {
                "enum"
            } else {
                "struct"
            }
        }
        ty::Str => "str",
        ty::Slice(_) => "slice",
        ty::Dynamic(..) => "dyn",
        ty::Tuple(_) => "tuple",
        ty::Param(_) => "param",
        ty::Int(_) | ty::Uint(_) | ty::Bool | ty::Char | ty::Float(_) => "scalar",
        ty::FnPtr(..) => "fnptr",
        ty::RawPtr(..) => "ptr",
        ty::Ref(..) => "ref",
        _ => "other",
    }
}
