//! Compile-fail witnesses for C09 (type erasure never adds Send/Sync where the type system is supposed to refuse).
//! Each `compile_fail,E0277` block is paired with a compiling twin that differs only in the payload type, so a
//! witness whose path is merely wrong cannot pass.  Run with `cargo +nightly test --doc` (the error code is only
//! checked on nightly).  Nothing here is executed: the twins are `no_run`.

/// W1: a `CBox` of a `!Send` payload cannot be converted to its opaque form (`T: Send` bound on the impl).
/// ```compile_fail,E0277
/// use cglue::prelude::v1::*;
/// fn need<T: cglue::trait_group::Opaquable>(_: T) {}
/// need(CBox::from(std::rc::Rc::new(0u8)));
/// ```
/// ```no_run
/// use cglue::prelude::v1::*;
/// fn need<T: cglue::trait_group::Opaquable>(_: T) {}
/// need(CBox::from(0u8));
/// ```
pub struct W1;

/// W2: `CArc<T>` is `Send` only for `T: Send + Sync` (as `Arc<T>`).
/// ```compile_fail,E0277
/// use cglue::prelude::v1::*;
/// fn need<T: Send>(_: T) {}
/// need(CArc::from(std::cell::Cell::new(0u8)));
/// ```
/// ```no_run
/// use cglue::prelude::v1::*;
/// fn need<T: Send>(_: T) {}
/// need(CArc::from(0u8));
/// ```
pub struct W2;

/// W3: `CArc<T>` is `Sync` only for `T: Send + Sync`.
/// ```compile_fail,E0277
/// use cglue::prelude::v1::*;
/// fn need<T: Sync>(_: T) {}
/// need(CArc::from(std::cell::Cell::new(0u8)));
/// ```
/// ```no_run
/// use cglue::prelude::v1::*;
/// fn need<T: Sync>(_: T) {}
/// need(CArc::from(0u8));
/// ```
pub struct W3;

/// W4: `CArcSome<T>` is `Send` only for `T: Send + Sync`.
/// ```compile_fail,E0277
/// use cglue::arc::CArcSome;
/// fn need<T: Send>(_: T) {}
/// need(CArcSome::from(std::rc::Rc::new(0u8)));
/// ```
/// ```no_run
/// use cglue::arc::CArcSome;
/// fn need<T: Send>(_: T) {}
/// need(CArcSome::from(0u8));
/// ```
pub struct W4;

/// W5: `CVec<T>` is `Send` only for `T: Send`.
/// ```compile_fail,E0277
/// use cglue::vec::CVec;
/// fn need<T: Send>(_: T) {}
/// need(CVec::from(vec![std::rc::Rc::new(0u8)]));
/// ```
/// ```no_run
/// use cglue::vec::CVec;
/// fn need<T: Send>(_: T) {}
/// need(CVec::from(vec![0u8]));
/// ```
pub struct W5;

/// W6: a context must be `Send + Sync` (`ContextBounds`).
/// ```compile_fail,E0277
/// fn need<C: cglue::trait_group::ContextBounds>() {}
/// need::<std::rc::Rc<u8>>();
/// ```
/// ```no_run
/// fn need<C: cglue::trait_group::ContextBounds>() {}
/// need::<cglue::arc::CArc<u8>>();
/// ```
pub struct W6;

/// W7: a boxed trait object of a `!Send` implementor cannot be built (erasure of the box is refused).
/// ```compile_fail,E0277
/// use cglue::*;
/// #[cglue_trait]
/// pub trait TA { fn a(&self) -> u8; }
/// pub struct X(std::rc::Rc<u8>);
/// impl TA for X { fn a(&self) -> u8 { 0 } }
/// fn main() { let _o = trait_obj!(X(std::rc::Rc::new(0)) as TA); }
/// ```
/// ```no_run
/// use cglue::*;
/// #[cglue_trait]
/// pub trait TA { fn a(&self) -> u8; }
/// pub struct X(u8);
/// impl TA for X { fn a(&self) -> u8 { 0 } }
/// fn main() { let _o = trait_obj!(X(0) as TA); }
/// ```
pub struct W7;

/// W8: an object cannot carry a `!Send`/`!Sync` context; with a `CArc` context an object of a `Send` implementor moves to a thread.
/// ```compile_fail,E0277
/// use cglue::*;
/// #[cglue_trait]
/// pub trait TA { fn a(&self) -> u8; }
/// pub struct X(u8);
/// impl TA for X { fn a(&self) -> u8 { 0 } }
/// fn main() {
///     let ctx = std::rc::Rc::new(0u8);
///     let _o = trait_obj!((X(0), ctx) as TA);
/// }
/// ```
/// ```no_run
/// use cglue::*;
/// #[cglue_trait]
/// pub trait TA { fn a(&self) -> u8; }
/// pub struct X(u8);
/// impl TA for X { fn a(&self) -> u8 { 0 } }
/// fn main() {
///     let ctx = cglue::arc::CArc::from(0u8);
///     let o = trait_obj!((X(0), ctx) as TA);
///     std::thread::spawn(move || { let _ = o.a(); });
/// }
/// ```
pub struct W8;
