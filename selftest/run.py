#!/usr/bin/env python3
"""Checker validation: apply each mutant to a scratch copy of /repo, run the named check against the copy, and
require that it reports a violation naming the mutated instance.  usage: run.py [id-substring ...] [--build]

--build additionally verifies that the mutant still compiles and passes the repository's pinned test suite.
--benign runs benign.json instead: behaviour-preserving edits on which every named check must stay silent (rc 0).
The scratch copy lives under /var/tmp and is removed at the end.
"""
import json, os, shutil, subprocess, sys, tempfile

HERE = os.path.dirname(os.path.abspath(__file__))
VERIF = os.path.dirname(HERE)


def main():
    args = [a for a in sys.argv[1:] if not a.startswith("--")]
    build = "--build" in sys.argv
    benign = "--benign" in sys.argv
    muts = json.load(open(os.path.join(HERE, "benign.json" if benign else "mutants.json")))
    if args:
        muts = [m for m in muts if any(a in m["id"] for a in args)]
    scratch = tempfile.mkdtemp(prefix="cgv-mut.", dir="/var/tmp")
    repo = os.path.join(scratch, "repo")
    results = []
    try:
        subprocess.check_call(["rsync", "-a", "--exclude", "target", "--exclude", ".git", "/repo/", repo + "/"])
        for m in muts:
            path = os.path.join(repo, m["file"])
            orig = open(path).read()
            if orig.count(m["find"]) < 1:
                results.append((m["id"], "STALE (pattern not found)"))
                continue
            new = orig.replace(m["find"], m["replace"], 1)
            for a, b in m.get("also", []):
                new = new.replace(a, b, 1)
            open(path, "w").write(new)
            try:
                status = []
                if build:
                    p = subprocess.run(["cargo", "test", "--workspace", "--offline", "--no-fail-fast"], cwd=repo,
                                       env=dict(os.environ, CARGO_TARGET_DIR=os.path.join(scratch, "target")),
                                       stdout=subprocess.PIPE, stderr=subprocess.STDOUT, text=True)
                    status.append("suite:%s" % ("pass" if p.returncode == 0 else "FAIL"))
                env = dict(os.environ, CGV_REPO=repo, CGV_WORK=os.path.join(scratch, "work"), CGV_EVIDENCE_DIR=os.path.join(scratch, "evidence"))
                if benign:
                    bad = []
                    for c in m["checks"]:
                        p = subprocess.run([os.path.join(VERIF, "cgv"), c, m.get("tier", "quick")], env=env, cwd=VERIF,
                                           stdout=subprocess.PIPE, stderr=subprocess.STDOUT, text=True)
                        if p.returncode != 0 or "VIOLATION" in p.stdout:
                            lines = [l for l in p.stdout.splitlines() if l.strip() and not l.startswith("VIOLATION") and " quick: " not in l and " thorough: " not in l]
                            bad.append("\n      %s rc=%d\n        %s" % (c, p.returncode, "\n        ".join(l[:700] for l in lines[:6])))
                    status.insert(0, "SILENT" if not bad else "ALARM")
                    status.extend(bad)
                    results.append((m["id"], " ".join(status)))
                    continue
                p = subprocess.run([os.path.join(VERIF, "cgv"), m["property"], m.get("tier", "quick")], env=env, cwd=VERIF,
                                   stdout=subprocess.PIPE, stderr=subprocess.STDOUT, text=True)
                out = p.stdout
                hit = p.returncode == 1 and "VIOLATION property=%s" % m["property"] in out
                named = all(e in out for e in m.get("expect", []))
                nviol = out.count("VIOLATION property=")
                status.append("rc=%d violations=%d" % (p.returncode, nviol))
                if hit and named:
                    status.insert(0, "CAUGHT")
                elif hit:
                    status.insert(0, "CAUGHT-BUT-UNNAMED")
                else:
                    status.insert(0, "MISSED")
                    status.append(out[-600:].replace("\n", " | "))
                results.append((m["id"], " ".join(status)))
            finally:
                open(path, "w").write(orig)
    finally:
        shutil.rmtree(scratch, ignore_errors=True)
    ok = True
    for i, r in results:
        print("%-40s %s" % (i, r))
        if not (r.startswith("CAUGHT ") or r.startswith("SILENT")):
            ok = False
    # evidence files were rewritten against the scratch copy: the caller should re-run the checks on /repo
    return 0 if ok else 1


if __name__ == "__main__":
    sys.exit(main())
