#!/usr/bin/env python3
"""Run checks against behaviour-preserving patches: every check must stay silent (rc 0) on each of them.
usage: patches.py <dir with *.diff> [--checks C01,C02,...]     (default: all registered checks, quick tier; scratch under /var/tmp)"""
import glob, json, os, shutil, subprocess, sys, tempfile

HERE = os.path.dirname(os.path.abspath(__file__))
VERIF = os.path.dirname(HERE)


def main():
    d = os.path.abspath(sys.argv[1])
    checks = None
    for a in sys.argv[2:]:
        if a.startswith("--checks"):
            checks = a.split("=", 1)[1].split(",") if "=" in a else None
    if checks is None:
        checks = [c["property_id"] for c in json.load(open(os.path.join(VERIF, "MANIFEST.json")))["checks"]]
    patches = sorted(glob.glob(os.path.join(d, "*.diff")))
    scratch = tempfile.mkdtemp(prefix="cgv-pat.", dir="/var/tmp")
    repo = os.path.join(scratch, "repo")
    allok = True
    try:
        subprocess.check_call(["rsync", "-a", "--exclude", "target", "--exclude", ".git", "/repo/", repo + "/"])
        for pt in patches:
            name = os.path.basename(pt)
            p = subprocess.run(["patch", "-p1", "-s", "-i", pt], cwd=repo, stdout=subprocess.PIPE, stderr=subprocess.STDOUT, text=True)
            if p.returncode != 0:
                print("%-28s PATCH-FAILED %s" % (name, p.stdout[:200].replace("\n", " ")), flush=True)
                subprocess.run(["patch", "-p1", "-R", "-s", "-f", "-i", pt], cwd=repo, stdout=subprocess.DEVNULL, stderr=subprocess.DEVNULL)
                subprocess.check_call(["rsync", "-a", "--delete", "--exclude", "target", "--exclude", ".git", "/repo/", repo + "/"])
                allok = False
                continue
            try:
                env = dict(os.environ, CGV_REPO=repo, CGV_WORK=os.path.join(scratch, "work"), CGV_EVIDENCE_DIR=os.path.join(scratch, "evidence"))
                bad = []
                for c in checks:
                    r = subprocess.run([os.path.join(VERIF, "cgv"), c, "quick"], env=env, cwd=VERIF, stdout=subprocess.PIPE, stderr=subprocess.STDOUT, text=True)
                    if r.returncode != 0:
                        lines = [l for l in r.stdout.splitlines() if l.strip() and not l.startswith("VIOLATION") and not l.startswith("KNOWN-FINDING") and " quick: " not in l]
                        bad.append("\n      %s rc=%d\n        %s" % (c, r.returncode, "\n        ".join(l[:600] for l in lines[:5])))
                print("%-28s %s%s" % (name, "SILENT" if not bad else "ALARM", "".join(bad)), flush=True)
                allok = allok and not bad
            finally:
                subprocess.check_call(["patch", "-p1", "-R", "-s", "-i", pt], cwd=repo)
    finally:
        shutil.rmtree(scratch, ignore_errors=True)
    return 0 if allok else 1


if __name__ == "__main__":
    sys.exit(main())
