"""Behaviour-preserving edits of /repo: every named check must stay silent on each of them (false-alarm regression suite).
Written as Python for readable multi-line strings; `python3 benign_src.py` regenerates benign.json."""
import json, os
B = []
def b(id, file, find, replace, checks, also=None):
    d = {"id": id, "file": file, "find": find, "replace": replace, "checks": checks}
    if also: d["also"] = also
    B.append(d)

V = "cglue/src/vec.rs"
b("vec-push-local-len", V,
  "        unsafe { core::ptr::write(self.data.add(self.len), value) };\n        self.len += 1;",
  "        let len = self.len;\n        unsafe { core::ptr::write(self.data.add(len), value) };\n        self.len = len + 1;", ["C11", "C05"])
b("vec-insert-if-panic", V,
  "        assert!(index <= self.len);\n\n        self.reserve(1);",
  "        if index > self.len {\n            panic!(\"insertion index out of range\");\n        }\n\n        self.reserve(1);", ["C11"])
b("vec-pop-early-return", V,
  "        if self.len == 0 {\n            None\n        } else {\n            self.len -= 1;\n            unsafe { Some(core::ptr::read(self.data.add(self.len))) }\n        }",
  "        if self.is_empty() {\n            return None;\n        }\n        self.len -= 1;\n        let v = unsafe { core::ptr::read(self.data.add(self.len)) };\n        Some(v)", ["C11"])
b("vec-remove-add-and-newlen", V,
  "            core::ptr::copy(ptr.offset(1), ptr, self.len - index - 1);\n            self.len -= 1;\n            ret",
  "            let new_len = self.len - 1;\n            core::ptr::copy(ptr.add(1), ptr, new_len - index);\n            self.len = new_len;\n            ret", ["C11"])
b("vec-reserve-free-var", V,
  "        if self.capacity - self.len < additional {",
  "        let free = self.capacity - self.len;\n        if additional > free {", ["C11", "C05"])
b("vec-from-manuallydrop", V,
  "    fn from(mut vec: Vec<T>) -> Self {\n        let data = vec.as_mut_ptr();\n        let len = vec.len();\n        let capacity = vec.capacity();\n        core::mem::forget(vec);",
  "    fn from(vec: Vec<T>) -> Self {\n        let mut vec = ManuallyDrop::new(vec);\n        let data = vec.as_mut_ptr();\n        let len = vec.len();\n        let capacity = vec.capacity();", ["C11", "C05", "C16"])
b("vec-dropfn-drop-call", V,
  "    let _ = Vec::from_raw_parts(data, len, capacity);",
  "    drop(Vec::from_raw_parts(data, len, capacity));", ["C11", "C05"])
b("vec-insert-add-not-offset", V,
  "            core::ptr::copy(p, p.offset(1), self.len - index);",
  "            core::ptr::copy(p, p.add(1), self.len - index);", ["C11"])

C = "cglue/src/callback.rs"
b("cb-feed-bind-result", C,
  "            cnt += 1;\n            if !callback.call(v) {\n                break;\n            }",
  "            cnt += 1;\n            let go_on = callback.call(v);\n            if !go_on {\n                break;\n            }", ["C15"])
b("cb-feed-while-let", C,
  "        let mut cnt = 0;\n        for v in self {\n            cnt += 1;\n            if !callback.call(v) {\n                break;\n            }\n        }\n        cnt",
  "        let mut cnt = 0;\n        let mut iter = self.into_iter();\n        while let Some(v) = iter.next() {\n            cnt += 1;\n            if !callback.call(v) {\n                break;\n            }\n        }\n        cnt", ["C15"])
b("cb-extend-bind", C,
  "        for item in iter {\n            if !self.call(item) {\n                break;\n            }\n        }",
  "        for item in iter {\n            let more = self.call(item);\n            if !more {\n                break;\n            }\n        }", ["C15"])
b("cb-opaque-call-locals", C,
  "    pub fn call(&mut self, arg: T) -> bool {\n        (self.0.func)(self.0.context, arg)\n    }",
  "    pub fn call(&mut self, arg: T) -> bool {\n        let func = self.0.func;\n        func(self.0.context, arg)\n    }", ["C15", "C16"])

I = "cglue/src/iter.rs"
b("iter-func-if-let", I,
  "            match iter.next() {\n                Some(e) => {\n                    unsafe { out.as_mut_ptr().write(e) };\n                    0\n                }\n                None => 1,\n            }",
  "            if let Some(e) = iter.next() {\n                unsafe { out.as_mut_ptr().write(e) };\n                0\n            } else {\n                1\n            }", ["C15", "C16"])
b("iter-func-maybeuninit-write", I,
  "                    unsafe { out.as_mut_ptr().write(e) };",
  "                    out.write(e);", ["C15", "C16"])
b("iter-next-match", I,
  "        if (self.func)(self.iter, &mut out) == 0 {\n            Some(unsafe { out.assume_init() })\n        } else {\n            None\n        }",
  "        match (self.func)(self.iter, &mut out) {\n            0 => Some(unsafe { out.assume_init() }),\n            _ => None,\n        }", ["C15", "C16"])

R = "cglue/src/result.rs"
b("res-out-maybeuninit-write", R,
  "            unsafe { ok_out.as_mut_ptr().write(v) };\n            0",
  "            ok_out.write(v);\n            0", ["C13", "C01", "C02"])
b("res-from-if-let", R,
  "    match NonZeroI32::new(res) {\n        None => Ok(ok_val.assume_init()),\n        Some(e) => Err(E::from_int_err(e)),\n    }",
  "    if let Some(e) = NonZeroI32::new(res) {\n        Err(E::from_int_err(e))\n    } else {\n        Ok(ok_val.assume_init())\n    }", ["C13", "C01", "C02"])
b("res-into-if-let", R,
  "    match res {\n        Ok(_) => 0,\n        Err(e) => e.into_int_err().get(),\n    }",
  "    if let Err(e) = res {\n        e.into_int_err().get()\n    } else {\n        0\n    }", ["C13", "C01"])
b("res-io-match", R,
  "        let err = self.raw_os_error().unwrap_or(0);\n\n        let err = if err == 0 {\n            // TODO: match numbers here for io::ErrorKind\n            0xffff\n        } else {\n            err\n        };\n\n        NonZeroI32::new(err).unwrap()",
  "        let err = match self.raw_os_error() {\n            Some(e) if e != 0 => e,\n            _ => 0xffff,\n        };\n\n        NonZeroI32::new(err).unwrap()", ["C13"])
b("res-cresult-from-explicit", R,
  "        match opt {\n            Ok(t) => Self::Ok(t),\n            Err(e) => Self::Err(e),\n        }",
  "        match opt {\n            Err(e) => CResult::Err(e),\n            Ok(t) => CResult::Ok(t),\n        }", ["C12", "C02"])
b("res-ok-explicit-err-arm", R,
  "            CResult::Ok(x) => Some(x),\n            _ => None,",
  "            CResult::Ok(x) => Some(x),\n            CResult::Err(_) => None,", ["C12"])

A = "cglue/src/arc.rs"
b("arc-cdrop-drop-call", A,
  "    if let Some(p) = ptr_to_arc {\n        let _ = Arc::from_raw(p);\n    }",
  "    if let Some(p) = ptr_to_arc {\n        drop(Arc::from_raw(p));\n    }", ["C10", "C05", "C07"])
b("arc-cclone-manuallydrop", A,
  "        let arc = Arc::from_raw(p);\n        let cloned_arc = arc.clone();\n        let _ = Arc::into_raw(arc);\n        Arc::into_raw(cloned_arc).as_ref()",
  "        let arc = core::mem::ManuallyDrop::new(Arc::from_raw(p));\n        let cloned_arc = Arc::clone(&arc);\n        Arc::into_raw(cloned_arc).as_ref()", ["C10", "C05"])
b("arc-cclone-increment", A,
  "        let arc = Arc::from_raw(p);\n        let cloned_arc = arc.clone();\n        let _ = Arc::into_raw(arc);\n        Arc::into_raw(cloned_arc).as_ref()",
  "        Arc::increment_strong_count(p as *const T);\n        Some(p)", ["C10", "C05"])
b("arc-clone-if-let", A,
  "        match <Option<&CArcSome<T>>>::from(self) {\n            Some(arc) => Some(arc.clone()).into(),\n            None => Default::default(),\n        }",
  "        if let Some(arc) = <Option<&CArcSome<T>>>::from(self) {\n            CArc::from(Some(arc.clone()))\n        } else {\n            CArc::default()\n        }", ["C10"])
b("arc-from-none-default", A,
  "            None => Self {\n                instance: None,\n                clone_fn: None,\n                drop_fn: None,\n            },\n        }",
  "            None => Self::default(),\n        }", ["C10"])
b("arcsome-clone-explicit-fields", A,
  "            instance: unsafe { (self.clone_fn)(Some(self.instance)).unwrap() },\n            ..*self",
  "            instance: unsafe { (self.clone_fn)(Some(self.instance)).unwrap() },\n            clone_fn: self.clone_fn,\n            drop_fn: self.drop_fn,", ["C10", "C05"])
b("arcsome-into-arc-manuallydrop", A,
  "        let ptr = self.instance as *const _;\n        std::mem::forget(self);\n        Arc::from_raw(ptr)",
  "        let this = core::mem::ManuallyDrop::new(self);\n        Arc::from_raw(this.instance as *const _)", ["C10", "C05"])

X = "cglue/src/boxed.rs"
b("box-from-t-inline", X,
  "    fn from(this: T) -> Self {\n        let b = Box::new(this);\n        CBox::from(b)\n    }",
  "    fn from(this: T) -> Self {\n        CBox::from(Box::new(this))\n    }", ["C06", "C05"])
b("box-dropfn-drop-call", X,
  "    let _ = Box::from_raw(this);\n}",
  "    drop(Box::from_raw(this));\n}", ["C06", "C05"])
b("box-into-inner-manuallydrop", X,
  "        let b = Box::from_raw(self.instance);\n        std::mem::forget(self);\n        *b",
  "        let mut this = core::mem::ManuallyDrop::new(self);\n        let b = Box::from_raw(&mut *this.instance as *mut T);\n        *b", ["C06", "C05"])
b("box-from-box-into-raw", X,
  "        let instance = Box::leak(this);\n        Self {\n            instance,\n            drop_fn: Some(cglue_drop_box::<T>),",
  "        let instance = unsafe { &mut *Box::into_raw(this) };\n        Self {\n            instance,\n            drop_fn: Some(cglue_drop_box::<T>),", ["C06", "C05", "C16"])

S = "cglue/src/repr_cstring.rs"
b("cstr-drop-drop-call", S,
  "        let _ = unsafe {\n            Box::from_raw(from_raw_parts_mut(\n                self.0.as_ptr() as *mut _,\n                string_size(self.0.as_ptr()),\n            ))\n        };",
  "        unsafe {\n            let len = string_size(self.0.as_ptr());\n            drop(Box::from_raw(from_raw_parts_mut(self.0.as_ptr() as *mut u8, len)));\n        }", ["C14"])
b("cstr-from-str-via-bytes", S,
  "impl From<&str> for ReprCString {\n    fn from(from: &str) -> Self {\n        let b = from\n            .bytes()\n            .take_while(|&b| b != 0)\n            .chain(Some(0))\n            .collect::<Vec<_>>()\n            .into_boxed_slice();\n        Self(NonNull::new(Box::leak(b).as_mut_ptr() as *mut _).unwrap())\n    }\n}",
  "impl From<&str> for ReprCString {\n    fn from(from: &str) -> Self {\n        from.as_bytes().into()\n    }\n}", ["C14"])
b("cstr-from-bytes-chain-once", S,
  "            .take_while(|&b| b != 0)\n            .chain(Some(0))\n            .collect::<Vec<_>>()\n            .into_boxed_slice();\n        Self(NonNull::new(Box::leak(b).as_mut_ptr() as *mut _).unwrap())\n    }\n}\n\nimpl From<&str>",
  "            .take_while(|&b| b != 0)\n            .chain(core::iter::once(0))\n            .collect::<Vec<_>>()\n            .into_boxed_slice();\n        Self(NonNull::new(Box::leak(b).as_mut_ptr() as *mut _).unwrap())\n    }\n}\n\nimpl From<&str>", ["C14"])
b("cstr-eq-as-str", S,
  "        self.as_ref().eq(other.as_ref())",
  "        self.as_ref() == other.as_ref()", ["C14"])

G = "cglue-gen/src/func.rs"
b("gen-cfunc-ret-block", G,
  "                #c_pre_call\n                let ret = #inner_impl;\n                #c_ret",
  "                #c_pre_call\n                let ret = { #inner_impl };\n                #c_ret", ["C01", "C02", "C06", "C07", "C13", "C03"])
b("gen-forward-no-parens", G,
  "                let ret = (self.0).#name(#passthrough_args);\n                #return_out\n            }\n        };\n\n        tokens.extend(gen);\n\n        recv_mutable(&self.receiver)",
  "                let ret = self.0.#name(#passthrough_args);\n                #return_out\n            }\n        };\n\n        tokens.extend(gen);\n\n        recv_mutable(&self.receiver)", ["C01"])
b("gen-impl-inline-not-always", G,
  "            let gen = quote! {\n                #[inline(always)]\n                #safety #abi fn #name <#sig_life_declare #sig_gen_declare> (#args) #out {",
  "            let gen = quote! {\n                #[inline]\n                #safety #abi fn #name <#sig_life_declare #sig_gen_declare> (#args) #out {", ["C01", "C02", "C04"])

b("gen-slice-arg-convert-in-let", G,
  "                            ret = Some((\n                                quote!(),\n                                quote!(#name.into(),),\n                                quote!(#name: #slty,),",
  "                            ret = Some((\n                                quote!(let #name = #name.into();),\n                                quote!(#name,),\n                                quote!(#name: #slty,),", ["C01", "C02", "C03"])
b("gen-option-arg-convert-inline", G,
  "                                            ret = Some((\n                                                quote!(let #name = #name.into();),\n                                                quote!(#name,),\n                                                quote!(#name: #crate_path::option::COption<#a>,),",
  "                                            ret = Some((\n                                                quote!(),\n                                                quote!(#name.into(),),\n                                                quote!(#name: #crate_path::option::COption<#a>,),", ["C01", "C02", "C03"])
b("gen-slice-arg-ufcs-into", G,
  "                                if into_str {\n                                    quote!(unsafe { #name.into_str() },)\n                                } else {\n                                    quote!(#name.into(),)\n                                },",
  "                                if into_str {\n                                    quote!(unsafe { #name.into_str() },)\n                                } else {\n                                    quote!(::core::convert::Into::into(#name),)\n                                },", ["C01", "C02"])
GN = "cglue-gen/src/generics.rs"
b("gen-hashset-any-instead-of-contains", GN,
  "                if applied_lifetimes.contains(&lt.ident) {\n                    continue;\n                }",
  "                if applied_lifetimes.iter().any(|l| **l == lt.ident) {\n                    continue;\n                }", ["C04"])
b("gen-groups-sort-unstable", "cglue-gen/src/trait_groups.rs",
  "        mandatory_vtbl.sort();", "        mandatory_vtbl.sort_unstable();", ["C04", "C08"])
BG = "cglue-bindgen/src/codegen/c.rs"
b("bindgen-contexts-hashset-then-sorted-vec", BG,
  "    let mut contexts = BTreeSet::new();\n",
  "    let mut contexts = HashSet::new();\n", ["C18"],
  also=[["    contexts.remove(\"Context\");\n    let header = monomorphize_contexts(header, &contexts)?;",
         "    contexts.remove(\"Context\");\n    let mut contexts = contexts.into_iter().collect::<Vec<String>>();\n    contexts.sort();\n    let header = monomorphize_contexts(header, &contexts)?;"],
        ["    contexts: &BTreeSet<String>,", "    contexts: &[String],"],
        ["use std::collections::{BTreeSet, HashMap, HashSet, VecDeque};", "use std::collections::{HashMap, HashSet, VecDeque};"]])
b("bindgen-contexts-loop-by-iter", BG,
  "        for context in contexts {\n", "        for context in contexts.iter() {\n", ["C18"])
SL = "cglue/src/slice.rs"
b("slice-from-cref-destructure", SL,
  "impl<'a, T> From<CSliceRef<'a, T>> for &'a [T] {\n    fn from(from: CSliceRef<'a, T>) -> Self {\n        unsafe { core::slice::from_raw_parts(from.data, from.len) }",
  "impl<'a, T> From<CSliceRef<'a, T>> for &'a [T] {\n    fn from(from: CSliceRef<'a, T>) -> Self {\n        let CSliceRef { data, len, .. } = from;\n        unsafe { core::slice::from_raw_parts(data, len) }", ["C12", "C02"])
b("slice-from-slice-locals", SL,
  "        Self {\n            data: s.as_ptr(),\n            len: s.len(),\n            _lifetime: PhantomData {},\n        }",
  "        let len = s.len();\n        let data = s.as_ptr();\n        Self {\n            data,\n            len,\n            _lifetime: PhantomData,\n        }", ["C12", "C02", "C16"])
b("slice-tryfrom-via-from", SL,
  "    fn try_from(from: CSliceRef<'a, u8>) -> Result<Self, Self::Error> {\n        core::str::from_utf8(unsafe { core::slice::from_raw_parts(from.data, from.len) })",
  "    fn try_from(from: CSliceRef<'a, u8>) -> Result<Self, Self::Error> {\n        let bytes: &'a [u8] = from.into();\n        core::str::from_utf8(bytes)", ["C12", "C02"])
b("slice-mut-from-locals", SL,
  "impl<'a, T> From<&'a mut [T]> for CSliceMut<'a, T> {\n    fn from(from: &'a mut [T]) -> Self {\n        Self {\n            data: from.as_mut_ptr(),\n            len: from.len(),\n            _lifetime: PhantomData::default(),\n        }",
  "impl<'a, T> From<&'a mut [T]> for CSliceMut<'a, T> {\n    fn from(from: &'a mut [T]) -> Self {\n        let len = from.len();\n        let data = from.as_mut_ptr();\n        Self {\n            data,\n            len,\n            _lifetime: PhantomData,\n        }", ["C12", "C02"])
b("slice-mut-deref-direct", SL,
  "impl<'a, T> core::ops::Deref for CSliceMut<'a, T> {\n    type Target = [T];\n\n    fn deref(&self) -> &Self::Target {\n        self.as_slice()",
  "impl<'a, T> core::ops::Deref for CSliceMut<'a, T> {\n    type Target = [T];\n\n    fn deref(&self) -> &Self::Target {\n        unsafe { core::slice::from_raw_parts(self.data, self.len) }", ["C12"])

O = "cglue/src/option.rs"
b("opt-from-if-let", O,
  "        match opt {\n            None => Self::None,\n            Some(t) => Self::Some(t),\n        }",
  "        if let Some(t) = opt {\n            Self::Some(t)\n        } else {\n            Self::None\n        }", ["C12", "C02"])
b("opt-as-ref-default-binding", O,
  "        match *self {\n            COption::Some(ref x) => Some(x),\n            COption::None => None,\n        }",
  "        match self {\n            COption::Some(x) => Some(x),\n            COption::None => None,\n        }", ["C12"])
b("opt-take-replace", O,
  "        core::mem::take(self).into()",
  "        let old = core::mem::replace(self, COption::None);\n        old.into()", ["C12"])
b("opt-unwrap-if-let", O,
  "        match self {\n            COption::Some(val) => val,\n            COption::None => panic!(\"called `COption::unwrap()` on a `None` value\"),\n        }",
  "        if let COption::Some(val) = self {\n            val\n        } else {\n            panic!(\"called `COption::unwrap()` on a `None` value\")\n        }", ["C12"])

T = "cglue/src/task/mod.rs"
b("task-clone-manuallydrop", T,
  "            BaseArc::increment_strong_count(data);\n            let waker = BaseArc::from_raw(data);\n            CRawWaker::to_raw(waker)",
  "            let this = core::mem::ManuallyDrop::new(BaseArc::from_raw(data));\n            CRawWaker::to_raw(BaseArc::clone(&this))", ["C19"])
b("task-drop-drop-call", T,
  "            let _ = BaseArc::from_raw(data as *const CRawWaker);",
  "            core::mem::drop(BaseArc::from_raw(data as *const CRawWaker));", ["C19"])
b("task-wake-explicit-drop", T,
  "            let this = BaseArc::from_raw(data as *const CRawWaker);\n            (this.vtable.wake_by_ref)(this.waker)\n        }",
  "            let this = BaseArc::from_raw(data as *const CRawWaker);\n            let raw = this.waker;\n            (this.vtable.wake_by_ref)(raw);\n            core::mem::drop(this);\n        }", ["C19"])
b("task-wake-by-ref-one-line", T,
  "            let data = data as *const CRawWaker;\n            let this = &*data;\n            (this.vtable.wake_by_ref)(this.waker)",
  "            let this = &*(data as *const CRawWaker);\n            (this.vtable.wake_by_ref)(this.waker)", ["C19"])
b("task-vtbl-drop-drop-call", T,
  "            let _: Waker = core::mem::transmute(w);",
  "            core::mem::drop(core::mem::transmute::<OpaqueRawWaker, Waker>(w));", ["C19"])

GG = "cglue-gen/src/trait_groups.rs"
b("gen-group-check-matches", GG,
  "                    self.#func_name_ref().is_some()",
  "                    matches!(self.#func_name_ref(), ::core::option::Option::Some(_))", ["C08"])
b("gen-group-cast-bind-result", GG,
  "                    Some(#opt_name {\n                        container,\n                        #mand_vtbl_list\n                        #mixed_opt_vtbl_unwrap\n                    })",
  "                    let ret = #opt_name {\n                        container,\n                        #mand_vtbl_list\n                        #mixed_opt_vtbl_unwrap\n                    };\n\n                    Some(ret)", ["C08", "C06", "C07", "C01"])
BM = "cglue-bindgen/src/main.rs"
b("bindgen-main-args-once", BM,
  "    let args_pre = env::args()\n        .skip(1)\n        .take_while(|v| v != \"--\")\n        .collect::<Vec<_>>();\n    let args = env::args().skip_while(|v| v != \"--\").collect::<Vec<_>>();",
  "    let all = env::args().collect::<Vec<String>>();\n    let args_pre = all\n        .iter()\n        .skip(1)\n        .take_while(|v| *v != \"--\")\n        .cloned()\n        .collect::<Vec<_>>();\n    let args = all\n        .iter()\n        .skip_while(|v| *v != \"--\")\n        .cloned()\n        .collect::<Vec<_>>();", ["C18"])
b("bindgen-main-write-bytes", BM,
  "        file.write_all(output.as_str().as_bytes())?;",
  "        file.write_all(output.as_bytes())?;", ["C18"])
b("bindgen-main-fs-write", BM,
  "        let mut file = File::create(path)?;\n        file.write_all(output.as_str().as_bytes())?;",
  "        std::fs::write(path, output.as_bytes())?;", ["C18"],
  also=[["use std::io::{Read, Write};", "use std::io::Read;"]])
b("bindgen-main-output-first-wins-binding", BM,
  "                if output_file.is_none() {\n                    output_file = Some(a[1].clone());\n                }",
  "                let path = a[1].clone();\n                if output_file.is_none() {\n                    output_file = Some(path);\n                }", ["C18"])
TG = "cglue/src/trait_group.rs"
b("tg-cobj-ref-explicit-deref", TG,
  "    fn cobj_ref(&self) -> (&F, &R, &Self::Context) {\n        (self.instance.deref(), &self.ret_tmp, &self.context)",
  "    fn cobj_ref(&self) -> (&F, &R, &Self::Context) {\n        let inst: &F = &*self.instance;\n        (inst, &self.ret_tmp, &self.context)", ["C01", "C06", "C07"])
b("tg-cobj-mut-locals", TG,
  "        (self.instance.deref_mut(), &mut self.ret_tmp, &self.context)",
  "        let Self {\n            instance,\n            ret_tmp,\n            context,\n        } = self;\n        (instance.deref_mut(), ret_tmp, &*context)", ["C01", "C06", "C07"])
b("tg-cobj-base-owned-destructure", TG,
  "    fn cobj_base_owned(self) -> (T, Self::Context) {\n        (self.instance, self.context)",
  "    fn cobj_base_owned(self) -> (T, Self::Context) {\n        let Self {\n            instance, context, ..\n        } = self;\n        (instance, context)", ["C01", "C06", "C07"])
b("tg-pin-ref-inline", TG,
  "        let this = self.get_ref();\n        let (a, b, c) = this.cobj_ref();",
  "        let (a, b, c) = self.get_ref().cobj_ref();", ["C01"])
b("tg-build-with-ccont-copy-vtbl", TG,
  "        Self {\n            container,\n            vtbl: self.vtbl,\n        }\n    }\n}\n\n/// Convert a container into inner type.",
  "        let vtbl = self.vtbl;\n        Self { container, vtbl }\n    }\n}\n\n/// Convert a container into inner type.", ["C01", "C06", "C07"])
b("verify-and-flat-match", TG,
  "        match self {\n            VerifyLayout::Valid => other,\n            VerifyLayout::Invalid => self,\n            _ => match other {\n                VerifyLayout::Valid => self,\n                _ => other,\n            },\n        }",
  "        match (self, other) {\n            (VerifyLayout::Invalid, _) | (_, VerifyLayout::Invalid) => VerifyLayout::Invalid,\n            (VerifyLayout::Unknown, _) | (_, VerifyLayout::Unknown) => VerifyLayout::Unknown,\n            (VerifyLayout::Valid, VerifyLayout::Valid) => VerifyLayout::Valid,\n        }", ["C20"])
b("verify-and-binding-tuple-match", TG,
  "        match self {\n            VerifyLayout::Valid => other,\n            VerifyLayout::Invalid => self,\n            _ => match other {\n                VerifyLayout::Valid => self,\n                _ => other,\n            },\n        }",
  "        match (self, other) {\n            (VerifyLayout::Invalid, _) | (_, VerifyLayout::Invalid) => VerifyLayout::Invalid,\n            (VerifyLayout::Valid, other) => other,\n            (this, _) => this,\n        }", ["C20"])
b("verify-relaxed-not-invalid", TG,
  "        matches!(self, VerifyLayout::Valid | VerifyLayout::Unknown)",
  "        !matches!(self, VerifyLayout::Invalid)", ["C20"])
b("verify-compare-match-tuple", TG,
  "    if let (Some(expected), Some(found)) = (expected, found) {",
  "    if let (Some(found), Some(expected)) = (found, expected) {", ["C20"])

json.dump(B, open(os.path.join(os.path.dirname(os.path.abspath(__file__)), "benign.json"), "w"), indent=1)
print(len(B), "benign edits")
