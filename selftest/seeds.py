#!/usr/bin/env python3
"""Regression over the independently seeded changes in /verif/seeded: apply each patch to a scratch copy of /repo, run the check of
its property (quick) against the copy and require a VIOLATION.  usage: seeds.py [id ...]   (scratch under /var/tmp, removed)"""
import json, os, shutil, subprocess, sys, tempfile

HERE = os.path.dirname(os.path.abspath(__file__))
VERIF = os.path.dirname(HERE)


def main():
    want = sys.argv[1:]
    seeds = sorted(d for d in os.listdir(os.path.join(VERIF, "seeded")) if os.path.exists(os.path.join(VERIF, "seeded", d, "patch.diff")))
    if want:
        seeds = [s for s in seeds if s in want]
    scratch = tempfile.mkdtemp(prefix="cgv-seeds.", dir="/var/tmp")
    repo = os.path.join(scratch, "repo")
    ok = True
    try:
        subprocess.check_call(["rsync", "-a", "--exclude", "target", "--exclude", ".git", "/repo/", repo + "/"])
        for s in seeds:
            patch = os.path.join(VERIF, "seeded", s, "patch.diff")
            meta = json.load(open(os.path.join(VERIF, "seeded", s, "meta.json")))
            prop = meta["property"]
            p = subprocess.run(["patch", "-p1", "-s", "-i", patch], cwd=repo, stdout=subprocess.PIPE, stderr=subprocess.STDOUT, text=True)
            if p.returncode != 0:
                print("%-6s PATCH-FAILED %s" % (s, p.stdout[:200].replace("\n", " ")))
                ok = False
                subprocess.run(["patch", "-p1", "-R", "-s", "-f", "-i", patch], cwd=repo, stdout=subprocess.DEVNULL, stderr=subprocess.DEVNULL)
                continue
            try:
                env = dict(os.environ, CGV_REPO=repo, CGV_WORK=os.path.join(scratch, "work"), CGV_EVIDENCE_DIR=os.path.join(scratch, "evidence"))
                r = subprocess.run([os.path.join(VERIF, "cgv"), prop, "quick"], env=env, cwd=VERIF, stdout=subprocess.PIPE, stderr=subprocess.STDOUT, text=True)
                hit = r.returncode == 1 and "VIOLATION property=%s" % prop in r.stdout
                if meta.get("expected") == "not-decided":
                    print("%-6s %s rc=%d (clause not claimed: %s)" % (s, "NOT-CLAIMED" if not hit else "CAUGHT", r.returncode, meta.get("note", "")[:90]))
                    continue
                first = [l for l in r.stdout.splitlines() if l and not l.startswith("VIOLATION")][:1]
                print("%-6s %s rc=%d %s" % (s, "CAUGHT" if hit else "MISSED", r.returncode, (first[0][:150] if first else "")))
                ok = ok and hit
            finally:
                subprocess.check_call(["patch", "-p1", "-R", "-s", "-i", patch], cwd=repo)
    finally:
        shutil.rmtree(scratch, ignore_errors=True)
    return 0 if ok else 1


if __name__ == "__main__":
    sys.exit(main())
