#!/bin/bash
# seed_eval.sh <Cxx> [extra checks...] : confirm a sub-agent's seeded change (suite passes, demo fails/passes), store it under
# /verif/seeded/<id>/ and run the named checks against /repo with the patch applied (undone afterwards).
set -u
ID=$1; shift
R=${SEED_ROUND:-}          # "" for round 1, "2" for round 2 (stored as <id>b)
SUF=""; [ "$R" = "2" ] && SUF=b
W=/tmp/seed$R-$ID; O=/tmp/seed$R-$ID-out; S=/verif/seeded/$ID$SUF
mkdir -p $S
echo "== suite with change"; (cd $W && cargo test --workspace --offline 2>&1 | grep -E "^test result" | head -3)
echo "== demo with change"; (cd $O/demo && (cargo test --offline 2>&1 || true) | grep -E "test result|panicked|FAILED|error\[" | head -5; if [ -f src/main.rs ]; then (cargo run --offline 2>&1 | tail -3; echo "exit=$?"); fi)
(cd $W && git stash -q)
echo "== demo without change"; (cd $O/demo && (cargo test --offline 2>&1 || true) | grep -E "test result|panicked|FAILED" | head -5; if [ -f src/main.rs ]; then (cargo run --offline 2>&1 | tail -3); fi)
(cd $W && git stash pop -q)
cp $O/patch.diff $S/patch.diff
rm -rf $S/demo; mkdir -p $S/demo; (cd $O/demo && tar cf - --exclude target . ) | (cd $S/demo && tar xf -)
cp $O/meta.txt $S/meta.txt 2>/dev/null
echo "== checks against /repo + patch"
cd /repo && git apply $S/patch.diff || { echo "PATCH DOES NOT APPLY"; exit 1; }
for c in $ID "$@"; do (cd /verif && CGV_EVIDENCE_DIR=/var/tmp/cgv-seed-evid ./cgv $c quick 2>&1 | grep -E "VIOLATION|quick:|CHECK-BROKEN" | cut -c1-200 | tail -4); done
cd /repo && git checkout -- . && git status --short | head -3
