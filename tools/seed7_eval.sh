#!/bin/bash
# seed3_eval.sh <Cxx> : confirm the three round-5 (final, single) change of a sub-agent (suite passes with each, demo fails with / passes without),
# store them as /verif/seeded/<id>c<i>/ and run the property's check against a scratch copy (selftest/seeds.py).
set -u
ID=$1
W=/tmp/seed7-$ID; O=/tmp/seed7-$ID-out
demo() { ( cd "$1" && if [ -x run.sh ]; then ./run.sh >/dev/null 2>&1; echo "exit=$?"; elif [ -f src/main.rs ]; then cargo run --offline -q >/dev/null 2>&1; echo "exit=$?"; else cargo test --offline -q >/dev/null 2>&1; echo "exit=$?"; fi ) }
for i in 1; do
  [ -f $O/$i/patch.diff ] || { echo "$ID/$i: no patch"; continue; }
  (cd $W && git checkout -q -- . && git apply $O/$i/patch.diff) || { echo "$ID/$i: PATCH DOES NOT APPLY"; continue; }
  suite=$(cd $W && cargo test --workspace --offline 2>&1 | grep -E "^test result|^error" | awk '{ if ($1=="error") e++; else if ($3=="ok.") p+=$4; else f++ } END { printf "passed=%d failed-binaries=%d errors=%d", p, f, e }')
  with=$(demo $O/$i/demo)
  (cd $W && git checkout -q -- .)
  without=$(demo $O/$i/demo)
  S=/verif/seeded/${ID}e$i
  mkdir -p $S; cp $O/$i/patch.diff $S/; cp $O/$i/meta.txt $S/ 2>/dev/null; rm -rf $S/demo; mkdir -p $S/demo; (cd $O/$i/demo && tar cf - --exclude target . ) | (cd $S/demo && tar xf -); cp $O/$i/RUN.txt $S/demo/ 2>/dev/null
  echo "$ID/$i: suite=$suite demo-with:$with demo-without:$without"
done
