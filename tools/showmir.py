#!/usr/bin/env python3
"""showmir.py <config> <path-substring> : pretty-print MIR facts (debug aid)."""
import sys, json, os
sys.path.insert(0, os.path.dirname(os.path.dirname(os.path.abspath(__file__))))
from lib import facts, corpus


def opstr(o):
    if "c" in o: return "copy " + pl(o["c"])
    if "m" in o: return "move " + pl(o["m"])
    if "k" in o:
        c = o["k"]
        if "fn" in c: return "fn:" + c["fn"]["path"] + "<" + ",".join(c["fn"].get("args", [])) + ">"
        if "int" in c: return "const %s:%s" % (c["int"], c["ty"])
        if "str" in c: return "const %r" % c["str"][:40]
        return "const<%s>" % c["ty"][:60]
    return str(o)


def pl(p):
    s = "_%d" % p["l"]
    for e in p["p"]:
        if e[0] == "d": s = "(*%s)" % s
        elif e[0] == "f": s = "%s.%s" % (s, e[2])
        elif e[0] == "dc": s = "(%s as %s)" % (s, e[1])
        else: s = "%s[%s]" % (s, e)
    return s


def rv(r):
    k = r["k"]
    if k == "use": return opstr(r["o"])
    if k == "ref": return "&%s%s" % ("mut " if r["bk"] == "mut" else "", pl(r["p"]))
    if k == "rawptr": return "&raw %s%s" % ("mut " if r["mut"] else "const ", pl(r["p"]))
    if k == "cast": return "%s as %s [%s]" % (opstr(r["o"]), r["ty"][:80], r["ck"])
    if k == "bin": return "%s(%s, %s)" % (r["op"], opstr(r["a"]), opstr(r["b"]))
    if k == "un": return "%s(%s)" % (r["op"], opstr(r["o"]))
    if k == "discr": return "discriminant(%s)" % pl(r["p"])
    if k == "agg":
        nm = r.get("adt") or r.get("closure") or r["ak"]
        return "%s::%s{%s}" % (nm, r.get("variant", ""), ", ".join("%s: %s" % (f, opstr(o)) for f, o in zip(r.get("fields") or range(len(r["ops"])), r["ops"])))
    return json.dumps(r)[:100]


def show_body(b):
    for i, l in enumerate(b["locals"]):
        print("    let _%d: %s  %s" % (i, l["ty"][:140], l.get("name", "")))
    for i, bb in enumerate(b["blocks"]):
        print("  bb%d%s:" % (i, " (cleanup)" if bb["c"] else ""))
        for s in bb["s"]:
            if s["k"] == "assign":
                print("      %s = %s   // L%s" % (pl(s["p"]), rv(s["r"]), s.get("line")))
            else:
                print("      %s" % json.dumps(s)[:120])
        t = bb["t"]
        k = t["k"]
        if k == "call":
            c = t.get("callee")
            name = (c["path"] + "<" + ",".join(c.get("args", [])) + ">") if c else "(" + opstr(t["f"]) + ")"
            extra = ""
            if c and c.get("res"): extra = "  => " + c["res"]["path"]
            if c and c.get("via_from"): extra += "  via " + c["via_from"].get("impl_path", "")
            print("      %s = %s(%s) -> bb%s unwind %s%s" % (pl(t["d"]), name[:200], ", ".join(opstr(a) for a in t["args"]), t["t"], t["u"], extra))
        elif k == "switch":
            print("      switch(%s) %s otherwise bb%s" % (opstr(t["o"]), t["targets"], t["otherwise"]))
        elif k == "drop":
            print("      drop(%s: %s) -> bb%s unwind %s" % (pl(t["p"]), t["ty"][:80], t["t"], t["u"]))
        elif k == "assert":
            print("      assert(%s == %s, %s) -> bb%s" % (opstr(t["c"]), t["expected"], t["msg"][:60], t["t"]))
        elif k == "goto":
            print("      goto bb%s" % t["t"])
        else:
            print("      %s" % k)


def main():
    cfg, pat = sys.argv[1], sys.argv[2]
    if cfg == "cglue": f = facts.cfg_cglue()
    elif cfg == "cglue-task": f = facts.cfg_cglue(features="task,futures")
    elif cfg == "cglue-lc": f = facts.cfg_cglue(features="layout_checks")
    elif cfg == "cglue-tests": f = facts.cfg_cglue(tests=True)
    elif cfg == "gen": f = facts.cfg_gen()
    elif cfg == "bindgen": f = facts.cfg_bindgen()
    elif cfg == "examples": f = facts.cfg_examples()
    elif cfg.startswith("corpus"): f = corpus.corpus_facts(cfg.split("-")[1] if "-" in cfg else "quick")
    else: raise SystemExit("config?")
    for fn in f.fns():
        if pat in fn["path"]:
            print("fn %s  [%s] abi=%s unsafe=%s (%s)" % (fn["path"], fn["_unit"], fn.get("abi"), fn.get("unsafe"), fn["span"]))
            show_body(fn["body"])
            for i, p in enumerate(fn.get("promoted", [])):
                print("  promoted[%d]" % i)
                show_body(p)


if __name__ == "__main__":
    main()
