#!/usr/bin/env python3
"""Regenerate /verif/MANIFEST.json from the table below (single source of truth for claims)."""
import json, os

HERE = os.path.dirname(os.path.dirname(os.path.abspath(__file__)))

CHECKS = {
    "C01": dict(
        cat="other",
        technique="forwarding-shape rules over MIR (unique call, dominance/post-dominance, not in a cycle, def-use origin tracing of receiver and arguments) on every generated method of an enumerated trait grammar",
        text="the generator is a template instantiator: `each call reaches the method of the same name on the same instance exactly once, arguments in order` "
             "is a per-function structural fact of the three emitted layers (opaque impl -> slot -> wrapper -> user method), checked for every method of "
             "the corpus grammar and of the repository's traits. Results/state equality then follows from lossless conversions (C02/C12/C13).",
        note="custom_impl / vtbl_only methods are excluded by the property and listed; user implementations assumed deterministic; grammar bound = corpus",
        ref="4 C01"),
    "C02": dict(
        cat="other",
        technique="type-resolved sibling agreement: the conversion resolved (Instance::try_resolve through Into->From) on each side of the vtable call must form an inverse pair of a fixed table, per argument/return position",
        text="decides that the two sides of every position agree (inverse pair or both identity); that each pair is lossless for all values is C12/C13. "
             "Value equality as such is implied, not enumerated.",
        note="pair table (6 rows + identity) confirmed by reading; a behaviour-preserving rewrite into an unknown conversion idiom would need the table extended",
        ref="4 C02"),
    "C03": dict(
        cat="proof",
        technique="rustc improper_ctypes lint on extern-declaration probes over the enumerated trait grammar + repr/ABI facts from a rustc_private driver",
        text="rustc itself decides FFI-safety of every opaque object/group type of the corpus grammar and of every shipped wrapper type "
             "(declaration probes make the lint recurse into every vtable slot); repr(C)/extern \"C\" facts for every generated ADT. "
             "Complete for the finite grammar enumerated (thorough: full cross product).",
        note="trusts rustc's improper_ctypes lint, the type checker, and the driver's fact printing; traits outside the corpus grammar are not covered",
        ref="4 C03"),
    "C05": dict(
        cat="other",
        technique="who-may-call rule over resolved callees: reclaim/rematerialise/grow primitives only in functions captured into *_fn slots at creation (extern \"C\", own T), unsafe same-module fns called only from generated extern \"C\" wrappers, or private helpers of captured functions",
        text="decides clause (b) `memory is always released/grown by the module that allocated it` as a layering rule on the source; clause (a) `every cross-module "
             "representation is layout-defined` is decided by C03/C04/C16. Clause (c), equal observable results across {stable,nightly} x {debug,release} x layout seeds "
             "x allocators, is a statement about builds and is NOT decided -- it is argued from (a)+(b).",
        note="partial claim: clauses (a) by reference and (b) here; (c) undecided. ReprCString (not named by C05) frees with the dropping module's allocator: noted only",
        ref="4 C05"),
    "C06": dict(
        cat="other",
        technique="ownership ledger: resolved-callee table of ownership-bypassing primitives, per-path net effect, constructor<->stored-destructor pairing by pointee type, who-may-call on destructor slots, pure-move rules for casts/opaque conversion",
        text="safe Rust proves exactly-once destruction except at sites that bypass ownership tracking; every such site in boxed.rs, trait_group.rs and in all "
             "generated code is classified and paired, which decides the property for every payload and every lifetime history (the suite's zero-sized, Drop-less "
             "payloads cannot observe any of it). Context clones stored in RetTmp slots are reported under C07.",
        note="trusts the std primitive semantics table in lib/ledger.py; unwinding paths are excluded (panics are outside the property)",
        ref="3.1, 4 C06"),
    "C07": dict(
        cat="other",
        technique="def-use origin tracing of the context operand of every wrapped return (through closure captures), dominance rule for the consuming-call guard, orphan-storage rule on compiler-instantiated RetTmp slots (needs_drop from rustc), field-declaration-order rule (instance destroyed before context) on every container, reference-conservation rules of the CArc handle",
        text="each derived object owns one context field (the language drops it once), so the property reduces to: where does that field's value come from "
             "(fresh clone of the own container's context / moved context of the consumed container), is a clone held across consuming calls, and is any context "
             "clone parked in storage nobody releases. The last rule fails for the four wrap_with_*_{ref,mut} kinds: recorded known findings.",
        note="4 known findings (context leak through RetTmp slots); trusts rustc needs_drop and that safe code drops each field once",
        ref="4 C07"),
    "C08": dict(
        cat="other",
        technique="path-sensitive case summaries of the MIR of every conversion (abstract interpretation over a term domain: symbolic Option slots split on their presence tests; success iff every requested slot is Some) over all 2^n-1 subsets x 5 operations of every generated group, filler rules, plus rustc layout_of equality With_S == group",
        text="`succeeds iff every requested trait was enabled` splits into `slot is Some iff enabled` (fillers: enable_*, Default, fill_table per implementing type) and "
             "`operation succeeds iff all requested slots are Some` (exactly the requested slots validated, success dominated by all validations, nothing else decides); "
             "both are exact structural facts, enumerated exhaustively over the powerset for groups with 0..2 (quick) / 0..4 (thorough) optional traits.",
        note="trusts `?` semantics on Option and rustc layouts; the mapping from macro syntax `cast!(x impl A + B)` to `cast_impl_a_b` is by the documented naming",
        ref="4 C08"),
    "C09": dict(
        cat="other",
        technique="rustc trait solver (Send/Sync/Opaquable + OpaqueTarget normalisation) over a complete wrapper x handle x context x payload matrix",
        text="the compiler's trait solver decides every cell of the finite matrix named by the property (every Opaquable impl in cglue and in generated "
             "code x payloads {Send,!Send}x{Sync,!Sync} x {Send,Sync}); a cell violates iff the opaque target has a marker the source lacks. 11 cells "
             "violate on the pinned tree and are recorded as known findings, which is why the claim is `other` and not `proof`: the matrix is decided completely, but the property does not hold on it.",
        note="trusts rustc's trait solver; payload classes are represented by u8 / Cell<u8> / MutexGuard<u8> / Rc<u8> newtypes",
        ref="4 C09"),
    "C04": dict(
        cat="other",
        technique="ADT field-order facts vs trait definitions, rustc layout_of equality of opaque/concrete pairs, call-graph reachability of hash-ordered iteration from the layout-defining macros, header cross-check",
        text="every generated vtable/group/container/With/Final ADT of the corpus (exact expected lists) and of the repository's own traits is checked "
             "clause by clause; opaque==concrete is decided by the compiler's layout computation on the full probe matrix; reproducibility is decided "
             "as absence of order-exposing hash iteration and other nondeterminism in the call-graph cone of cglue_trait/cglue_trait_ext/cglue_trait_group.",
        note="trusts rustc layouts and the driver's call-graph (conservative: fn items as operands, closures, generic dispatch to local impls); traits outside the corpus grammar not covered",
        ref="4 C04"),
    "C16": dict(
        cat="proof",
        technique="rustc layout_of / discriminant facts of monomorphic probes compared with the published table, the checked-in C header and cglue-bindgen's hard-coded struct patterns (string constants from MIR); path-sensitive case summaries of the published protocols (iterator next: 0 iff an item was written; arc clone through the stored function; positional parameters of a vector's stored functions)",
        text="finite table: every runtime wrapper type x (repr, field order, offsets, C kind of each field, fn-pointer arity/ABI, enum tags) decided from "
             "compiler facts against three published oracles, plus the protocol clauses the statement names (next returns 0 for an item, clone/release through "
             "the stored functions). That driving the fields has the same effect as the Rust method in general follows from the ownership rules of "
             "C05/C06/C10/C11, not from this check.",
        note="trusts rustc layout computation and a small C struct parser; header cross-check covers the types the example header mentions",
        ref="4 C16"),
    "C10": dict(
        cat="other",
        technique="ownership ledger over arc.rs (per-path net effect of into_raw/from_raw/drop_in_place/stored clone+drop slots), transfer-disarms-source rule by origin tracing, guard dominance for the CArc->CArcSome reinterpretation, rustc layout equality, auto-trait bound comparison",
        text="per-operation rules: each constructor leaks exactly one strong reference and stores c_clone/c_drop at its own T; c_clone adds exactly one, c_drop "
             "releases exactly one (only for Some); Clone/Drop touch the count only through the stored functions; every conversion that builds a handle from another "
             "handle takes the drop function out of the source; the empty state clones to empty and drops as a no-op. `count == live handles over all histories "
             "and thread schedules` is DERIVED from these facts (safe code cannot duplicate a handle; all shared state is inside std::sync::Arc), not enumerated.",
        note="trusts std::sync::Arc; schedules are not explored -- the rules are schedule-independent",
        ref="4 C10"),
    "C11": dict(
        cat="other",
        technique="path-sensitive case summaries of each operation's MIR with affine normalisation of addresses and lengths (linear expressions over data/len/index, fields re-versioned by reserve, local helpers stepped into) compared with Vec's specification; canonical index guards; positional raw-parts rules for the stored functions",
        text="per-operation summaries (where is written/read/copied, how many elements, new length, which guard) are decided exactly by abstract interpretation "
             "of the MIR and compared with Vec's documented semantics; growth/free are shown to go through the stored functions with (data, len, capacity) in order. "
             "Equality of contents over arbitrary operation sequences is NOT executed: it is the inductive consequence of each operation preserving "
             "`len <= capacity` and `[0,len) initialised`.",
        note="partial claim (per-operation; sequences by induction). Trusts Vec/ptr primitive semantics; zero-sized T relies on Vec's handling inside reserve",
        ref="4 C11"),
    "C12": dict(
        cat="other",
        technique="MIR origin tracing (def-use) over every function that builds/rebuilds slice views; path-sensitive case summaries (variant V -> variant V, payload moved once) of every option/result/tuple conversion and helper method",
        text="these functions are straight-line field shuffles or single discriminant matches, so shape rules are exact for every input: "
             "(as_ptr,len) of one argument in, (data,len) of one view out, no branch on length, from_utf8 verdict returned unchanged and unchecked "
             "conversions only in unsafe fn, variant V -> V with payload field i moved to field i and no calls.",
        note="trusts the documented semantics of as_ptr/len/from_raw_parts/from_utf8 and that moves in safe code are exactly-once",
        ref="4 C12"),
    "C13": dict(
        cat="other",
        technique="path-sensitive case summaries of the int-result helpers and of every IntError::into_int_err (per input case: effects in order and returned term), NonZeroI32 type contract, out-parameter wiring rules on every generated int-result method, transport rule (a method is integer-coded exactly when marked) on an enumerated trait grammar",
        text="which arm writes/reads the slot and which constant it returns is visible in the CFG of the four helper functions; shipped error types are "
             "shown never to encode to 0 by a small non-zero dataflow; the generated plumbing is checked per method on the corpus and repository traits.",
        note="trusts NonZeroI32/MaybeUninit semantics; user-defined IntError impls outside the repository are out of scope",
        ref="4 C13"),
    "C14": dict(
        cat="other",
        technique="ledger pairing (Box::leak::<[u8]> <-> Box::from_raw::<[c_char]>), accepted-idiom rule on the origin chain of the leaked buffer, delegation rules for every other impl",
        text="the buffer invariant (`prefix before the first NUL + exactly one NUL`, freed with the scanned length) is established by the shape of the only "
             "functions that build a ReprCString and of Drop; every other impl is shown to go through as_ref. The idiom table has two entries and is the stated "
             "limit of the check. From<&[u8]> violated S1/S2 on the pinned tree and was repaired by a fix: commit.",
        note="trusts take_while/chain/collect/CString semantics; string_size itself is read, not analysed",
        ref="4 C14"),
    "C15": dict(
        cat="other",
        technique="loop-body path enumeration and dominance rules over MIR (exactly-one call per item, counter update before it, exit on false/exhaustion) or closure summaries for short-circuiting internal iteration; exactly-once rules on trampolines; case summaries of the iterator protocol",
        text="loop-body invariance turns `for every item sequence and stop position` into a finite set of paths through each feeding loop; trampolines, "
             "pair constructions and the CIterator protocol are straight-line or single-match functions, so shape rules decide them for every input.",
        note="behaviour of the wrapped closure/iterator is outside the property; trusts Iterator::next / MaybeUninit semantics",
        ref="4 C15"),
    "C19": dict(
        cat="other",
        technique="ownership ledger on task/mod.rs: consuming-slot identification from the record vtable's implementations, who-may-call rule on those slots, interprocedural handle balance per RawWakerVTable position, exactly-once wake rules",
        text="the foreign-side waker is a reference-counted record holding one clone of the caller's waker; the property reduces to: the record's bits are consumed "
             "only by the record's own Drop, each per-handle function has the right net handle effect, each wake path wakes once, and the borrowed view neither "
             "consumes nor releases. The pinned tree violated the first rule (double release) and was repaired by a fix: commit. Thread schedules are not explored: "
             "all shared state is inside BaseArc's atomics and the caller's waker, and the rules do not depend on the schedule.",
        note="trusts tarc::BaseArc and the std Waker contract",
        ref="4 C19"),
    "C20": dict(
        cat="other",
        technique="exhaustive evaluation of the verdict functions' MIR over their complete finite input domains by path-sensitive case summaries (two feature configurations), comparison-call argument order from the summaries, StableAbi impl facts for every generated ADT in a layout_checks build",
        text="four claimed clauses: verdict combination tables (3x3, exhaustive), compare_layouts over {None,Some}^2 x {Ok,Err} (exhaustive) with the "
             "comparison's argument order, every generated/runtime ADT carries a layout description, nothing hides fields from it. NOT decided: whether "
             "abi_stable's comparison itself distinguishes every single-edit interface change (third-party run-time comparison).",
        note="abi_stable is trusted; the clause `never Valid when interfaces differ` is reduced to `every field of every generated struct participates in the description`",
        ref="4 C20"),
    "C18": dict(
        cat="other",
        technique="call-graph reachability of order-exposing hash iteration from main with per-site sink classification; flow-insensitive taint propagation in main for the argument partition",
        text="two clauses are claimed: (R) byte-identical output across runs, decided as `no hash-ordered sequence or other nondeterminism source reachable "
             "from main flows into the output` (exceptions machine-checked per site), and (A) pre/post `--` argument partition and the written value. "
             "NOT decided: that the output is a self-contained header a C99/C++11 compiler accepts, and that foreign declarations survive unmodified in "
             "order -- properties of a regex rewrite's input->output function that need the tool to run.",
        note="taint analysis is flow-insensitive and intra-procedural (main); regex-crate and itertools internals are trusted to be deterministic",
        ref="4 C18"),
}

NOT_APPLICABLE = {
    "C17": "generated C/C++ wrappers are text assembled at run time by regex rewriting of an input header; no type/CFG/call-graph fact of the Rust source reflects which slot a wrapper calls -- deciding it needs the tool to run (different technique family). The static remnants (hard-coded C snippets vs Rust layouts) are checked under C16.",
}

PENDING = {}

ALL = ["C%02d" % i for i in range(1, 21)]


def main():
    checks = []
    for pid in ALL:
        c = CHECKS.get(pid)
        if not c:
            continue
        checks.append({
            "property_id": pid,
            "quick_cmd": "./cgv %s quick" % pid,
            "thorough_cmd": "./cgv %s thorough" % pid,
            "evidence_file": "/verif/evidence/%s.json" % pid,
            "replay_cmd_template": "cat {path}",
            "engine": "cgv",
            "level_claimed": {"category": c["cat"], "text": c["text"], "design_ref": "DESIGN.md section " + c["ref"]},
            "level_note": c["note"],
            "technique": c["technique"],
        })
    na = []
    for pid in ALL:
        if pid in CHECKS:
            continue
        reason = NOT_APPLICABLE.get(pid) or PENDING.get(pid) or "check not built yet in this framework; not claimed"
        na.append({"property_id": pid, "reason": reason})
    m = {
        "version": 1,
        "setup_cmd": "cd /verif/driver && cargo build --offline 2>&1 | tail -3",
        "hooks": {
            "guard": "cglue_verif",
            "enable": "none needed: static analysis reads /repo, it does not instrument it",
            "baseline_off_cmd": "cd /repo && cargo test --workspace --no-fail-fast --offline",
            "source_commits": [],
            "add_only": True,
        },
        "engines": [
            {"name": "cgv-driver", "path": "/verif/driver", "serves_properties": sorted(CHECKS), "kind_free_text": "rustc_private fact extractor (MIR, ADTs, impls, layouts, trait-solver probes) run as RUSTC_WRAPPER under cargo +nightly check"},
            {"name": "cgv", "path": "/verif/cgv", "serves_properties": sorted(CHECKS), "kind_free_text": "python rule engine over the facts: CFG/dominators, origin tracing, ownership ledger, layout tables; rustc lints/trait solver as oracles; generated corpus enumerating the trait/group grammar"},
        ],
        "checks": checks,
        "not_applicable": na,
        "notes": "Static analysis only. See DESIGN.md for per-property clauses that are decided and those plainly not decided.",
    }
    with open(os.path.join(HERE, "MANIFEST.json"), "w") as fh:
        json.dump(m, fh, indent=1)
    print("MANIFEST.json: %d checks, %d not claimed" % (len(checks), len(na)))


if __name__ == "__main__":
    main()
