//! Positive controls: one deliberately bad instance per zero-expected rule.  A run in which a control is NOT
//! flagged by its rule fails as a broken checker.  Nothing here is ever executed.
#![allow(unused, clippy::all)]
use cglue::result::IntError;
use core::mem::MaybeUninit;
use core::num::NonZeroI32;
use std::collections::{HashMap, HashSet};

/// C13: an error type that can encode to 0 (new_unchecked bypasses the NonZero contract)
pub struct BadErr(pub i32);
impl IntError for BadErr {
    fn into_int_err(self) -> NonZeroI32 {
        unsafe { NonZeroI32::new_unchecked(self.0) }
    }
    fn from_int_err(e: NonZeroI32) -> Self {
        BadErr(e.get())
    }
}

/// C13: unguarded value handed to NonZeroI32::new
pub struct BadErr2(pub i32);
impl IntError for BadErr2 {
    fn into_int_err(self) -> NonZeroI32 {
        NonZeroI32::new(self.0).unwrap()
    }
    fn from_int_err(e: NonZeroI32) -> Self {
        BadErr2(e.get())
    }
}

/// C04/C18: hash-ordered iteration flowing into emitted text
pub fn hash_order_into_output(names: &HashSet<String>) -> String {
    let mut out = String::new();
    for n in names.iter() {
        out.push_str(n);
    }
    out
}

/// C04/C18: a hash collection handed over as an iterable (`String::extend(set)`): the iteration happens inside the callee
pub fn hash_passed_as_iterable(names: HashSet<String>) -> String {
    let mut out = String::new();
    out.extend(names);
    out
}

/// C18: set -> sorted set is order-free and must NOT be flagged
pub fn hash_passed_to_sorted(names: HashSet<String>) -> std::collections::BTreeSet<String> {
    let mut out = std::collections::BTreeSet::new();
    out.extend(names);
    out
}

/// C18: map -> map is order-free and must NOT be flagged
pub fn hash_to_hash(m: HashMap<String, u32>) -> HashMap<u32, String> {
    m.into_iter().map(|(k, v)| (v, k)).collect()
}

/// C06/C07: storage whose contents are never released
pub struct OrphanSlot {
    pub slot: MaybeUninit<cglue::arc::CArc<u64>>,
}
pub fn fill_orphan(o: &mut OrphanSlot, v: cglue::arc::CArc<u64>) {
    unsafe { o.slot.as_mut_ptr().write(v) };
}

/// ledger: a leak without a paired reclaimer
pub fn leak_unpaired(b: Box<u64>) -> *mut u64 {
    Box::leak(b) as *mut u64
}

/// ledger: a double reclaim on one path
pub unsafe fn double_free(p: *mut u64) {
    let _a = Box::from_raw(p);
    let _b = Box::from_raw(p);
}
